//go:build verif

package main

// Component names as an input of their own.
//
// The model numbers the components; which STRING a component is registered under is irrelevant to it.  The
// implementation keeps names, verdict and statuses in string-keyed maps and one JSON object, so whether the
// name is irrelevant there too is something to check: every case draws a table number -> name from
//   - plain names ("component-<n>"),
//   - the strings the implementation itself uses in its answer (taken from the package's own constants, not
//     from literals here: the verdict key, the two status words, the empty string) and near misses of them
//     (other case, blanks / control bytes before or after, look-alike runes, prefixes and extensions),
//   - near misses of the plain names (trailing blank, other case),
//   - text that means something to JSON or HTML (quotes, backslashes, braces, a complete object, <, >, &,
//     U+2028), words of the vocabulary around readiness, numbers, Go / JSON keywords,
//   - non-ASCII names (accented, Cyrillic, CJK, full-width, zero-width characters, combining marks, emoji),
//   - very long names (some KiB, 70 KiB; pairs that differ in the last byte only).
// All names are valid UTF-8 (JSON would replace other bytes, and two names could then share one key of the
// body: a matter of the encoding, not of readiness) and pairwise distinct within a table.

import (
	"fmt"
	"strings"
	"unicode/utf8"

	"github.com/metal-toolbox/audito-maldito/internal/health"
	"github.com/metal-toolbox/audito-maldito/internal/verifharness/hutil"
)

func clip(s string) string {
	if len(s) <= 300 {
		return s
	}
	cut := 200
	for cut > 0 && !utf8.RuneStart(s[cut]) {
		cut--
	}
	return fmt.Sprintf("%s...[%d bytes]", s[:cut], len(s))
}

// implWords: what the implementation writes into its answer.
func implWords() []string {
	return []string{health.OverallReady, health.ComponentReady, health.ComponentNotReady, ""}
}

func nearMisses(w string) []string {
	res := []string{strings.ToUpper(w), w + " ", " " + w, w + "\t", w + "\n", "\n" + w, w + "\x00", w + "\u200b", w + w, w + "-1", w + "."}
	if len(w) > 0 {
		res = append(res, strings.ToUpper(w[:1])+w[1:], w[:len(w)-1], w[1:])
		// a look-alike: Latin o / e / a replaced by the Cyrillic letter
		la := strings.NewReplacer("o", "\u043e", "e", "\u0435", "a", "\u0430").Replace(w)
		if la != w {
			res = append(res, la)
		}
	}
	return res
}

var fixedNames = []string{
	"status", "ready", "Ready", "not ready", "not_ready", "notready", "NotReady", "overal", "overalReady", "readyz", "healthz", "all",
	"true", "false", "null", "nil", "0", "1", "200", "503", "-1",
	`"`, `\`, `\"`, `{}`, `{"overall":"ok"}`, `overall":"ok","x`, `","overall":"ok`, "<script>", "a&b", "a b", "a\u00a0b", "a\u2028b", "\ufeff", "%s", "%!s(MISSING)",
	"\u00fcberall", "\u043a\u043e\u043c\u043f\u043e\u043d\u0435\u043d\u0442", "\u7ec4\u4ef6-1", "\uff4f\uff56\uff45\uff52\uff41\uff4c\uff4c", "\u00e9", "e\u0301", "\U0001F600",
	"\U0001F468\u200d\U0001F469\u200d\U0001F467",
	" ", "  ", "\t", "\n", "\r\n", "\x00", "\x7f",
}

func specialNames(names int) []string {
	var res []string
	for _, w := range implWords() {
		res = append(res, w)
	}
	for _, w := range implWords() {
		res = append(res, nearMisses(w)...)
	}
	for i := 0; i < names; i++ {
		p := fmt.Sprintf("component-%d", i)
		res = append(res, p+" ", " "+p, strings.ToUpper(p[:1])+p[1:], strings.ToUpper(p), p+"\n", "component-0"+fmt.Sprint(i), p+".0")
	}
	res = append(res, fixedNames...)
	return res
}

func longNames(r *hutil.Rand) []string {
	n := []int{300, 4095, 4096, 4097, 9000, 70000}[r.Intn(6)]
	base := strings.Repeat("n", n)
	switch r.Intn(4) {
	case 0:
		base = strings.Repeat(health.OverallReady, n/len(health.OverallReady)+1)
	case 1:
		base = strings.Repeat("\u00fc", n/2)
	}
	return []string{base, base + "a", base + "b", base + " ", health.OverallReady + base}
}

// pickNames draws the table of a case: k pairwise distinct names.  kind 0: plain; 1: one slot holds one of the
// implementation's own words, the others are plain or special; 2: every slot special; 3: long names.
func pickNames(r *hutil.Rand, k int) (tab []string, kind string) {
	tab = make([]string, k)
	for i := range tab {
		tab[i] = fmt.Sprintf("component-%d", i)
	}
	used := map[string]bool{}
	put := func(i int, s string) {
		if !utf8.ValidString(s) {
			return
		}
		for j, t := range tab {
			if j != i && t == s {
				return
			}
		}
		if used[s] {
			return
		}
		used[s] = true
		tab[i] = s
	}
	sp := specialNames(k)
	switch r.Intn(8) {
	case 0, 1, 2:
		return tab, "plain"
	case 3, 4:
		kind = "impl-word"
		put(r.Intn(k), hutil.Pick(r, implWords()))
		for i := range tab {
			if r.Chance(1, 3) && tab[i] == fmt.Sprintf("component-%d", i) {
				put(i, hutil.Pick(r, sp))
			}
		}
	case 5, 6:
		kind = "special"
		for i := range tab {
			put(i, hutil.Pick(r, sp))
		}
	default:
		kind = "long"
		ln := longNames(r)
		for i := range tab {
			if r.Chance(2, 3) {
				put(i, hutil.Pick(r, ln))
			} else if r.Bool() {
				put(i, hutil.Pick(r, sp))
			}
		}
	}
	return tab, kind
}

// namesForReplay: long names are stored as they are (a replay must be the very input).
func namesForReplay() []string { return append([]string{}, nameTab...) }
