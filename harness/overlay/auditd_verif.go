//go:build verif

package auditd

import (
	"time"

	"github.com/elastic/go-libaudit/v2"

	"github.com/metal-toolbox/audito-maldito/processors/auditd/sessiontracker"
)

// VerifNewStream returns the daemon's reassembler callback (the unexported
// reassemblerCB, exactly as Auditd.Read constructs it) for the verification harness.
func VerifNewStream(au sessiontracker.Auditor, errs chan<- error, after time.Time) libaudit.Stream {
	return &reassemblerCB{au: au, errors: errs, after: after}
}
