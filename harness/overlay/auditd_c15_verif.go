//go:build verif

package auditd

import (
	"context"
	"errors"
	"time"

	"github.com/elastic/go-libaudit/v2"

	"github.com/metal-toolbox/audito-maldito/processors/auditd/sessiontracker"
)

// Accessors for the C15 verification harness (harness/auditproc).

const (
	VerifC15MaxEventsInFlight   = maxEventsInFlight
	VerifC15EventTimeout        = eventTimeout
	VerifC15ReassemblerInterval = reassemblerInterval
)

// VerifC15ParseAuditLogs runs the package's parse loop.
func VerifC15ParseAuditLogs(ctx context.Context, lines <-chan string, reass *libaudit.Reassembler) error {
	return parseAuditLogs(ctx, lines, reass)
}

// VerifC15NewCB builds the package's reassembler callback.
func VerifC15NewCB(au sessiontracker.Auditor, errs chan<- error, after time.Time) libaudit.Stream {
	return &reassemblerCB{au: au, errors: errs, after: after}
}

// VerifC15ErrClass tells which of the package's error types err is (or wraps).
func VerifC15ErrClass(err error) string {
	var pe *parseAuditLogsError
	if errors.As(err, &pe) {
		return "parse"
	}
	var ce *reassemblerCBError
	if errors.As(err, &ce) {
		return "callback"
	}
	return ""
}
