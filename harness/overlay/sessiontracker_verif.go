//go:build verif

package sessiontracker

import (
	"time"

	"github.com/elastic/go-libaudit/v2/aucoalesce"

	"github.com/metal-toolbox/audito-maldito/internal/common"
)

// VerifUser is a copy of a tracked session, for the verification harness.
type VerifUser struct {
	Added  time.Time
	SrcPID int
	HasRUL bool
	Login  common.RemoteUserLogin
	Cached []*aucoalesce.Event
}

// VerifDump copies the correlator's state. Call it only while no other
// goroutine is inside the correlator.
func VerifDump(a any) (map[string]VerifUser, map[int]common.RemoteUserLogin) {
	o := a.(*sessionTracker)
	sessions := map[string]VerifUser{}
	o.sessIDsToUsers.Iterate(func(id string, u *user) bool {
		sessions[id] = VerifUser{
			Added:  u.added,
			SrcPID: u.srcPID,
			HasRUL: u.hasRUL,
			Login:  u.login,
			Cached: append([]*aucoalesce.Event(nil), u.cached...),
		}
		return true
	})
	parked := map[int]common.RemoteUserLogin{}
	o.pidsToRULs.Iterate(func(pid int, l common.RemoteUserLogin) bool {
		parked[pid] = l
		return true
	})
	return sessions, parked
}

// VerifMaps returns the two maps (to name them in hook traces).
func VerifMaps(a any) (sessions any, parked any) {
	o := a.(*sessionTracker)
	return o.sessIDsToUsers, o.pidsToRULs
}
