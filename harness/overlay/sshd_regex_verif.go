//go:build verif

package sshd

import "regexp"

// VerifRegexes hands the package's own compiled patterns (openssh_regex.go) to the
// verification harness harness/prims: the very *regexp.Regexp values the handlers use.
// The harness cross-checks this table against the var declarations of openssh_regex.go
// (every regexp.MustCompile variable must be listed, with the same source text).
func VerifRegexes() map[string]*regexp.Regexp {
	return map[string]*regexp.Regexp{
		"loginRE":                           loginRE,
		"passwordLoginRE":                   passwordLoginRE,
		"failedPasswordAuthRE":              failedPasswordAuthRE,
		"certIDRE":                          certIDRE,
		"invalidUserRE":                     invalidUserRE,
		"notInAllowUsersRE":                 notInAllowUsersRE,
		"userNonExistentShellRE":            userNonExistentShellRE,
		"userNonExecutableShellRE":          userNonExecutableShellRE,
		"userInDenyUsersRE":                 userInDenyUsersRE,
		"userNotInAnyGroupRE":               userNotInAnyGroupRE,
		"userGroupInDenyGroupsRE":           userGroupInDenyGroupsRE,
		"userGroupNotListedInAllowGroupsRE": userGroupNotListedInAllowGroupsRE,
		"rootLoginRefusedRE":                rootLoginRefusedRE,
		"badOwnerOrModesForHostFileRE":      badOwnerOrModesForHostFileRE,
		"nastyPTRRecordRE":                  nastyPTRRecordRE,
		"reverseMappingCheckFailedRE":       reverseMappingCheckFailedRE,
		"doesNotMapBackToAddrRE":            doesNotMapBackToAddrRE,
		"maxAuthAttemptsExceededRE":         maxAuthAttemptsExceededRE,
		"revokedPublicKeyByFileRE":          revokedPublicKeyByFileRE,
		"revokedPublicKeyByFileErrRE":       revokedPublicKeyByFileErrRE,
	}
}
