//go:build verif

package dirreader

import (
	"context"
	"io"
	"io/fs"
	"os"

	"github.com/fsnotify/fsnotify"
)

// VerifFile is what an in-memory file of the verification harness implements
// (the exported twin of statReadSeekCloser).
type VerifFile interface {
	Stat() (fs.FileInfo, error)
	io.ReadSeekCloser
}

// VerifFS is the exported twin of fileSystem.
type VerifFS interface {
	Open(filePath string) (VerifFile, error)
}

type verifFSAdapter struct{ fs VerifFS }

func (a verifFSAdapter) Open(filePath string) (statReadSeekCloser, error) {
	f, err := a.fs.Open(filePath)
	if err != nil {
		return nil, err
	}
	return f, nil
}

type verifWatcher struct{ events <-chan fsnotify.Event }

func (w verifWatcher) Events() <-chan fsnotify.Event { return w.events }
func (w verifWatcher) Close() error                  { return nil }

type verifDirEntry struct {
	name string
	dir  bool
}

func (e verifDirEntry) Name() string { return e.name }
func (e verifDirEntry) IsDir() bool  { return e.dir }
func (e verifDirEntry) Type() fs.FileMode {
	if e.dir {
		return fs.ModeDir
	}
	return 0
}
func (e verifDirEntry) Info() (fs.FileInfo, error) { return nil, os.ErrInvalid }

func verifEntries(names []string, isDir []bool) []os.DirEntry {
	out := make([]os.DirEntry, len(names))
	for i := range names {
		out[i] = verifDirEntry{name: names[i], dir: isDir[i]}
	}
	return out
}

// VerifSort runs the real sortLogNamesOldToNew on a directory listing.
func VerifSort(names []string, isDir []bool) []string {
	return append([]string(nil), sortLogNamesOldToNew(verifEntries(names, isDir))...)
}

// VerifStart does what StartLogDirReader does after its os/fsnotify calls: it builds the
// same LogDirReader (initial names from the real sortLogNamesOldToNew) over the supplied
// file system and event channel and starts the real loop. It also returns a copy of the
// initial names (the loop clears the field later).
func VerifStart(ctx context.Context, dirPath string, names []string, isDir []bool, fsys VerifFS,
	events <-chan fsnotify.Event) (*LogDirReader, []string) {
	r := &LogDirReader{
		dirPath:       dirPath,
		initFileNames: sortLogNamesOldToNew(verifEntries(names, isDir)),
		watcher:       verifWatcher{events: events},
		fs:            verifFSAdapter{fs: fsys},
		lines:         make(chan string),
		initFilesDone: make(chan struct{}),
		done:          make(chan struct{}),
	}
	initNames := append([]string(nil), r.initFileNames...)

	go r.loop(ctx)

	return r, initNames
}

// VerifReadLines is the real readLines.
func VerifReadLines(ctx context.Context, reader io.Reader, lines chan<- string) (int64, error) {
	return readLines(ctx, reader, lines)
}
