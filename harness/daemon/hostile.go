//go:build verif

package main

import (
	"fmt"
	"regexp"
	"strings"

	"github.com/metal-toolbox/audito-maldito/internal/verifharness/hutil"
)

// Hostile CLIENT-CHOSEN text.  sshd logs what the client (or the CA) chose - the user name of a failed attempt, the
// key id of a certificate - verbatim inside its message.  A record on the sshd pipe is "<pid> <message>": the PID of
// the sshd process is the record's first column and nothing in the message can name another process.  The generator
// puts text into those fields that LOOKS LIKE ANOTHER RECORD: a complete accepted-login message for the PID of
// another session of the same scenario, under an account that is not that session's, with every syslog decoration a
// parser might honour in front of it.  On a correct daemon such a name is recorded as a name (one failed UserLogin
// with that loggedAs / one succeeded UserLogin with that userID) and nothing else happens; a daemon that lets the
// text name the process hands the correlator a login that never happened, and the identity oracle (C01) sees the
// target session's UserActions with another identity than that of its only login.

// hostileInfo: what the hostile field of a line holds (statistics and replay documentation only; the oracles do not read it).
type hostileInfo struct {
	Field      string `json:"field"`       // user-name | key-id
	Target     int    `json:"target"`      // index of the session plan whose PID the embedded message names
	TargetPID  int    `json:"target_pid"`  //
	Forged     string `json:"forged"`      // accepted_password | accepted_key | accepted_cert | accepted_key_untagged
	ForgedUser string `json:"forged_user"` // the account the embedded message claims
	Decoration string `json:"decoration"`  // class of the text in front of the embedded message
	Position   string `json:"position"`    // where the line was put relative to the target session's own records
}

// decoration classes: what stands between the beginning of the hostile text and the embedded message.  %d = the PID.
var hostileDecorations = []struct{ class, format string }{
	{"tag-sshd", "sshd[%d]: "},
	{"tag-sshd", "sshd[%d]:"},
	{"tag-sshd-session", "sshd-session[%d]: "},
	{"tag-other-program", "audito-maldito[%d]: "},
	{"pid-column", "%d "},
	{"pid-column", "%d   "},
	{"bsd-timestamp-host-tag", "Oct  1 12:00:00 myhost sshd[%d]: "},
	{"bsd-timestamp-host-tag", "Jan 31 23:59:59 10.0.0.1 sshd-session[%d]: "},
	{"iso-timestamp-host-tag", "2023-10-01T12:00:00.123456+00:00 myhost sshd[%d]: "},
	{"iso-timestamp-host-tag", "2023-10-01T12:00:00Z myhost sshd-session[%d]: "},
	{"pri-timestamp-host-tag", "<38>Oct  1 12:00:00 myhost sshd[%d]: "},
	{"rfc5424", "<38>1 2023-10-01T12:00:00.003Z myhost sshd %d - - "},
	{"nil-procid-tag", "- sshd[%d]: "},
	{"journald-fields", "_PID=%d MESSAGE="},
	{"json-fields", `{"PID":"%d","MESSAGE":"`},
}

// what may stand right in front of the decoration: nothing, a word, or something a parser might take for a record boundary
var hostileBreaks = []struct{ class, text string }{
	{"none", ""}, {"none", ""},
	{"word", "x "}, {"word", "root "}, {"word", "x"},
	{"cr", "\r"}, {"cr", "x\r"}, {"cr", "x \r"},
	{"vt-ff", "x\x0b"}, {"vt-ff", "\x0c"},
	{"unicode-line-separator", "x\u2028"}, {"unicode-line-separator", "x\u0085"},
	{"escaped-newline", "x#012"}, {"escaped-newline", `x\n`}, {"escaped-newline", "x#015#012"},
	{"tab", "x\t"},
	{"nul", "x\x00"},
}

// the fragment that moves the fields of an accepted public-key line (DESIGN.md, C06: the complement of no_ssh_frag);
// key ids stay outside it, as everywhere in the generators
var sshFragRE = regexp.MustCompile(` ssh[[:alnum:]]+: [\w -]+:\S`)

func keyIDInDomain(kid string) bool {
	return !sshFragRE.MatchString(" "+kid) && !strings.Contains(kid, "(serial") && !strings.ContainsAny(kid, "\n")
}

// genForgedMessage: a complete accepted-login message for another account.
func genForgedMessage(r *hutil.Rand, kind, user string) string {
	addr, port := genAddr(r), fmt.Sprint(1+r.Intn(65535))
	switch kind {
	case "accepted_password":
		return fmt.Sprintf("Accepted password for %s from %s port %s ssh2", user, addr, port)
	case "accepted_key":
		return fmt.Sprintf("Accepted publickey for %s from %s port %s ssh2: %s %s", user, addr, port, hutil.Pick(r, keyTypes), genFP(r))
	case "accepted_key_untagged": // the accepted-publickey message up to the protocol word (no key fragment: inside the key-id domain)
		return fmt.Sprintf("Accepted publickey for %s from %s port %s ssh2", user, addr, port)
	case "accepted_cert":
		return fmt.Sprintf("Accepted publickey for %s from %s port %s ssh2: %s %s ID %s (serial %d) CA %s %s",
			user, addr, port, hutil.Pick(r, keyTypes[4:]), genFP(r), genKeyID(r), r.Intn(100000), hutil.Pick(r, keyTypes[:4]), genFP(r))
	}
	panic("unknown forged kind " + kind)
}

// genHostileText: break + decoration(pid) + forged message (+ a trailing word).  keyID: the text must stay inside
// the key-id domain (no key fragment, no serial token).
func genHostileText(r *hutil.Rand, targetPID int, otherUser string, keyID bool) (text string, info hostileInfo) {
	for {
		kinds := []string{"accepted_password", "accepted_password", "accepted_key", "accepted_cert"}
		if keyID {
			kinds = []string{"accepted_password", "accepted_password", "accepted_key_untagged"}
		}
		kind := hutil.Pick(r, kinds)
		dec := hutil.Pick(r, hostileDecorations)
		brk := hutil.Pick(r, hostileBreaks)
		text = brk.text + fmt.Sprintf(dec.format, targetPID) + genForgedMessage(r, kind, otherUser)
		switch r.Intn(5) {
		case 0:
			text += " x"
		case 1:
			text += `"}`
		}
		info = hostileInfo{TargetPID: targetPID, Forged: kind, ForgedUser: otherUser, Decoration: dec.class + "/after-" + brk.class}
		if !keyID || keyIDInDomain(text) {
			return text, info
		}
	}
}

// failure-line carriers: the message forms whose user name is chosen by the client
var hostileCarriers = []string{"invalid_user", "invalid_user", "failed_password", "failed_password_invalid_user", "max_attempts", "max_attempts_invalid_user"}

// genHostileFailure: a failure line of sshd process pid whose client-chosen name is name.
func genHostileFailure(r *hutil.Rand, carrier string, pid, session int, name string) sshdItem {
	it := sshdItem{PID: pid, Addr: genAddr(r), Port: fmt.Sprint(1 + r.Intn(65535)), Pad: []int{0, 0, 1, 2}[r.Intn(4)], Session: session}
	switch carrier {
	case "invalid_user":
		it.Kind, it.User = "invalid_user", name
		it.Msg = fmt.Sprintf("Invalid user %s from %s port %s", it.User, it.Addr, it.Port)
	case "failed_password", "failed_password_invalid_user":
		it.Kind, it.User = "failed_password", name
		if carrier == "failed_password_invalid_user" {
			it.User = "invalid user " + name // what sshd prints for an unknown account; the event's loggedAs keeps it
		}
		it.Msg = fmt.Sprintf("Failed password for %s from %s port %s ssh2", it.User, it.Addr, it.Port)
	case "max_attempts", "max_attempts_invalid_user":
		it.Kind, it.User = "max_attempts", name
		if carrier == "max_attempts_invalid_user" {
			it.User = "invalid user " + name
		}
		it.Msg = fmt.Sprintf("maximum authentication attempts exceeded for %s from %s port %s ssh2", it.User, it.Addr, it.Port)
	default:
		panic("unknown carrier " + carrier)
	}
	return it
}

// hostilePositions: where a hostile line may go in the target session's own sequence (the merge keeps the order of a
// sequence; the order between the two pipes is realised where a settled phase boundary falls in between, and the
// phase generator prefers boundaries next to hostile lines).  Returns (index, name).
func hostilePosition(r *hutil.Rand, seq []*protoItem) (int, string) {
	li, gi := -1, -1 // the LOGIN record, the genuine accepted line
	for k, it := range seq {
		if it.audit != nil && it.audit.Role == "login" && li < 0 {
			li = k
		}
		if it.sshd != nil && it.sshd.accepted() && it.sshd.Hostile == nil && gi < 0 {
			gi = k
		}
	}
	type cand struct {
		at   int
		name string
	}
	cands := []cand{{0, "first-of-session"}, {len(seq), "last-of-session"}, {r.Intn(len(seq) + 1), "anywhere"}}
	if li >= 0 {
		cands = append(cands, cand{li, "just-before-LOGIN-record"}, cand{li + 1, "just-after-LOGIN-record"}, cand{li + 1, "just-after-LOGIN-record"})
	}
	if gi >= 0 {
		cands = append(cands, cand{gi, "just-before-genuine-login"}, cand{gi, "just-before-genuine-login"}, cand{gi + 1, "just-after-genuine-login"})
	}
	c := hutil.Pick(r, cands)
	rel := func(ref int, what string) string {
		switch {
		case ref < 0:
			return "no-" + what
		case c.at <= ref:
			return "before-" + what
		}
		return "after-" + what
	}
	return c.at, c.name + "/" + rel(li, "LOGIN-record") + "/" + rel(gi, "genuine-login")
}

// otherUser: an account that is NOT the one of session ti - another session's account or a fresh name.
func otherUser(r *hutil.Rand, users []string, ti int) string {
	for tries := 0; tries < 20; tries++ {
		u := genName(r)
		if len(users) > 1 && r.Bool() {
			u = users[r.Intn(len(users))]
		}
		if rs := []rune(u); len(rs) > 64 { // accounts of large-event scenarios can be KiB long
			u = string(rs[:64]) + "z"
		}
		if ti >= len(users) || u != users[ti] {
			return u
		}
	}
	return "verif-other-account"
}
