//go:build verif

package main

import (
	"bytes"
	"encoding/json"
	"fmt"
	"os"
	"sort"
	"strings"
	"time"
)

type outEvent struct {
	Type      string            `json:"type"`
	LoggedAt  time.Time         `json:"loggedAt"`
	Outcome   string            `json:"outcome"`
	Subjects  map[string]string `json:"subjects"`
	Component string            `json:"component"`
	Source    struct {
		Type  string         `json:"type"`
		Value string         `json:"value"`
		Extra map[string]any `json:"extra"`
	} `json:"source"`
	Target   map[string]string `json:"target"`
	Metadata struct {
		AuditID string `json:"auditId"`
	} `json:"metadata"`
	lineNo int
	raw    string
}

func (e *outEvent) sentinel() bool {
	if e.Type == "UserAction" {
		return e.Metadata.AuditID == fmt.Sprint(sentinelSes) || e.Metadata.AuditID == fmt.Sprint(sentinel2Ses)
	}
	return (e.Subjects["loggedAs"] == sentinelUser && e.Subjects["pid"] == fmt.Sprint(sentinelPID)) ||
		(e.Subjects["loggedAs"] == sentinel2User && e.Subjects["pid"] == fmt.Sprint(sentinel2PID))
}

type problem struct {
	Key  string `json:"key"`
	Text string `json:"text"`
}

// which property an oracle key belongs to
var keyProp = map[string]string{
	"output:not-json-line":       "C10",
	"output:duplicate":           "C10",
	"output:action-before-login": "C10",
	"output:earlier-events-lost": "C10",
	"e2e:identity":               "C01",
	"e2e:once-in-order":          "C02",
	"e2e:silence":                "C04",
	"e2e:framing":                "C07",
	// the same comparison of the UserLogin events with the lines written to the sshd pipe, as C06 / C11 state it
	"e2e:login-event":         "C06", // each recognised line: exactly one UserLogin with exactly its fields, and no other UserLogin
	"e2e:unrecognised-silent": "C11", // a UserLogin that no recognised line written to the pipe yields
	"e2e:render":              "C14", // render.go
}

type verdict struct {
	Problems    []problem `json:"problems"`
	Lines       int       `json:"lines"`
	UserLogins  int       `json:"user_logins"`           // without the harness' sentinel
	UserActions int       `json:"user_actions"`          // without the harness' sentinel
	Expected    int       `json:"expected_user_actions"` // mandatory ones
	Rendered     int      `json:"user_actions_compared_with_the_library"`
	RenderedLong int      `json:"of_them_from_records_longer_than_4096"`
}

func trunc(s string) string {
	if len(s) > 200 {
		return s[:200] + "..."
	}
	return s
}

func machineID() string {
	b, _ := os.ReadFile("/etc/machine-id")
	return strings.TrimSpace(string(b))
}

// judge evaluates every oracle on the output file, from the generated history alone (storm: how many lines of the
// sshd burst the run wrote, see scenario.Big).
func judge(sc *scenario, output []byte, storm int, survived bool) verdict {
	// survived: the scenario has a writer-restart episode (reader.go) and the daemon was still there after the first
	// writer had closed: the new writer's records count, and the "restart" session is a session with both halves
	var v verdict
	add := func(key, format string, a ...any) {
		v.Problems = append(v.Problems, problem{key, fmt.Sprintf(format, a...)})
	}

	// ---- C10 output:earlier-events-lost: what was in the file when the daemon started is still there, untouched,
	// and everything new comes after it (the daemon appends)
	if pre := prefillBytes(sc.Prefill); len(pre) > 0 {
		if !bytes.HasPrefix(output, pre) {
			add("output:earlier-events-lost", "the events file held %d event(s) of an earlier run when the daemon started; they are no longer intact at the beginning of the file, which now begins %q", sc.Prefill, trunc(string(output)))
		} else {
			output = output[len(pre):]
		}
	}

	// ---- C10 output:not-json-line: the file is a sequence of complete lines, each exactly one JSON event
	var events []*outEvent
	lines := bytes.Split(output, []byte("\n"))
	if n := len(lines); n > 0 && len(lines[n-1]) == 0 {
		lines = lines[:n-1]
	} else if n > 0 {
		add("output:not-json-line", "the output file does not end with a newline: last line %q", trunc(string(lines[n-1])))
	}
	v.Lines = len(lines)
	for i, l := range lines {
		ev := &outEvent{lineNo: i + 1, raw: string(l)}
		dec := json.NewDecoder(bytes.NewReader(l))
		if err := dec.Decode(ev); err != nil || dec.More() || len(bytes.TrimSpace(l)) == 0 || l[0] != '{' {
			add("output:not-json-line", "output line %d is not exactly one JSON object: %q", i+1, trunc(string(l)))
			continue
		}
		if ev.Type != "UserLogin" && ev.Type != "UserAction" {
			add("output:not-json-line", "output line %d is an event of unknown type %q: %q", i+1, ev.Type, trunc(string(l)))
			continue
		}
		events = append(events, ev)
	}

	// ---- C10 output:duplicate / output:action-before-login (all events, the sentinel's included)
	seenRaw := map[string]int{}
	seenAction := map[string]int{}
	okLogin := map[string]bool{} // loggedAs + pid of the successful UserLogins seen so far
	for _, ev := range events {
		ident := ev.Subjects["loggedAs"] + "\x00" + ev.Subjects["pid"]
		switch ev.Type {
		case "UserLogin":
			if !ev.sentinel() {
				v.UserLogins++
			}
			if prev, dup := seenRaw[ev.raw]; dup {
				add("output:duplicate", "output line %d repeats the UserLogin of line %d: %s", ev.lineNo, prev, trunc(ev.raw))
			}
			seenRaw[ev.raw] = ev.lineNo
			if ev.Outcome == "succeeded" {
				okLogin[ident] = true
			}
		case "UserAction":
			if !ev.sentinel() {
				v.UserActions++
			}
			k := ev.Metadata.AuditID + "@" + ev.LoggedAt.UTC().Format(time.RFC3339Nano)
			if prev, dup := seenAction[k]; dup {
				add("output:duplicate", "output line %d repeats the UserAction %s of line %d", ev.lineNo, k, prev)
			}
			seenAction[k] = ev.lineNo
			if !okLogin[ident] {
				add("output:action-before-login", "output line %d: UserAction of audit session %s carries the identity loggedAs=%q pid=%s but no successful UserLogin with that identity is on an earlier line",
					ev.lineNo, ev.Metadata.AuditID, ev.Subjects["loggedAs"], ev.Subjects["pid"])
			}
		}
	}

	// ---- the plan
	sesPlan := map[string]*sessionPlan{}
	isFull := make([]bool, len(sc.Sessions))
	fullPlan := func(sp *sessionPlan) bool {
		return sp != nil && (sp.Kind == "full" || (sp.Kind == "restart" && survived))
	}
	for i := range sc.Sessions {
		sp := &sc.Sessions[i]
		if sp.Kind != "login-only" && sp.Kind != "unset" {
			sesPlan[fmt.Sprint(sp.Ses)] = sp
		}
		isFull[i] = sp.Kind == "full" || (sp.Kind == "restart" && survived)
	}
	byTS := map[int64]int{} // unique stamp -> index into sc.Audit
	for i, a := range sc.Audit {
		byTS[a.TSms] = i
	}
	mid := machineID()

	actions := map[string][]*outEvent{} // per auditId, file order
	for _, ev := range events {
		if ev.Type == "UserAction" && !ev.sentinel() {
			actions[ev.Metadata.AuditID] = append(actions[ev.Metadata.AuditID], ev)
		}
	}
	ids := make([]string, 0, len(actions))
	for id := range actions {
		ids = append(ids, id)
	}
	sort.Strings(ids)

	for _, id := range ids {
		sp := sesPlan[id]
		// ---- C04 e2e:silence
		if !fullPlan(sp) {
			what := "a session id that no generated session has (unset / absent session)"
			if sp != nil {
				what = map[string]string{"cron": "a session without any accepted sshd login (cron-like)", "console": "a session without LOGIN record (console-like)",
					"restart": "a session whose sshd process never completed a login record (the writer of the sshd pipe closed in the middle of it and the daemon ended with that writer)"}[sp.Kind]
			}
			ev := actions[id][0]
			add("e2e:silence", "%d UserAction(s) with auditId %q, which is %s; first on output line %d: identity %v", len(actions[id]), id, what, ev.lineNo, ev.Subjects)
			continue
		}
		// ---- C01 e2e:identity
		lg := sc.Sshd[sp.Login]
		wantSubj := map[string]string{"loggedAs": lg.User, "userID": lg.userID(), "pid": fmt.Sprint(lg.PID)}
		for _, ev := range actions[id] {
			var diffs []string
			if fmt.Sprint(ev.Subjects) != fmt.Sprint(wantSubj) {
				diffs = append(diffs, fmt.Sprintf("subjects %v, expected %v", ev.Subjects, wantSubj))
			}
			if ev.Source.Type != "IP" || ev.Source.Value != lg.Addr || fmt.Sprint(ev.Source.Extra["port"]) != lg.Port {
				diffs = append(diffs, fmt.Sprintf("source %s %q port %v, expected IP %q port %s", ev.Source.Type, ev.Source.Value, ev.Source.Extra["port"], lg.Addr, lg.Port))
			}
			if ev.Target["host"] != nodeName || ev.Target["machine-id"] != mid {
				diffs = append(diffs, fmt.Sprintf("target %v, expected host %s machine-id %s", ev.Target, nodeName, mid))
			}
			if len(diffs) > 0 {
				add("e2e:identity", "output line %d: UserAction of audit session %s (LOGIN record pid %d, i.e. the %s login of %q): %s",
					ev.lineNo, id, sp.PID, lg.Kind, lg.User, strings.Join(diffs, "; "))
				break // one report per session
			}
		}
	}

	// ---- C02 e2e:once-in-order (sessions with both halves delivered)
	for i := range sc.Sessions {
		sp := &sc.Sessions[i]
		if !isFull[i] {
			continue
		}
		id := fmt.Sprint(sp.Ses)
		mandatory := map[int]bool{}
		optional := map[int]bool{}
		for _, ai := range sp.Audit {
			switch sc.Audit[ai].Role {
			case "login", "event", "disp":
				mandatory[ai] = true
			case "stray":
				optional[ai] = true
			}
		}
		v.Expected += len(mandatory)
		count := map[int]int{}
		var order []int
		bad := ""
		for _, ev := range actions[id] {
			ai, known := byTS[ev.LoggedAt.UnixMilli()]
			switch {
			case !known:
				bad = fmt.Sprintf("output line %d: UserAction with loggedAt %s matches no input record", ev.lineNo, ev.LoggedAt.UTC().Format(time.RFC3339Nano))
			case !mandatory[ai] && !optional[ai]:
				a := sc.Audit[ai]
				bad = fmt.Sprintf("output line %d: UserAction made from the %s record %d (ses=%s, role %s), which is not one of this session's events", ev.lineNo, a.Type, a.Seq, a.Ses, a.Role)
			default:
				count[ai]++
				order = append(order, ai)
			}
			if bad != "" {
				break
			}
		}
		if bad == "" {
			var missing, twice []string
			for _, ai := range sp.Audit {
				a := sc.Audit[ai]
				if mandatory[ai] && count[ai] == 0 {
					missing = append(missing, fmt.Sprintf("%s#%d", a.Type, a.Seq))
				}
				if count[ai] > 1 {
					twice = append(twice, fmt.Sprintf("%s#%d x%d", a.Type, a.Seq, count[ai]))
				}
			}
			switch {
			case len(missing) > 0:
				bad = fmt.Sprintf("%d of %d events from the LOGIN record up to the end of the session are missing: %s", len(missing), len(mandatory), strings.Join(missing, " "))
			case len(twice) > 0:
				bad = "events written more than once: " + strings.Join(twice, " ")
			case !sort.IntsAreSorted(order):
				var seqs []string
				for _, ai := range order {
					seqs = append(seqs, fmt.Sprint(sc.Audit[ai].Seq))
				}
				bad = "events are not in input order; sequence numbers in output order: " + strings.Join(seqs, " ")
			}
		}
		if bad != "" {
			add("e2e:once-in-order", "audit session %s (pid %d, %s): %s", id, sp.PID, sp.Order, bad)
		}
	}

	// ---- C07 e2e:framing: every line written to the sshd pipe made exactly one UserLogin with the right outcome
	loginKey := func(pid, user, outcome, addr, port, userID string) string {
		return fmt.Sprintf("pid=%s loggedAs=%q outcome=%s source=%s port=%s userID=%q", pid, user, outcome, addr, port, userID)
	}
	want := map[string]int{}
	kindOf := map[string]string{}
	written := sc.Sshd
	if storm > 0 {
		written = append([]sshdItem{}, sc.Sshd...)
		for i := 0; i < storm; i++ {
			written = append(written, stormItem(i))
		}
	}
	optionalKey := map[string]bool{}
	for _, s := range written {
		if s.Kind == "unrecognised" {
			continue // nothing must come of it
		}
		if s.Episode && !survived {
			// written (if at all) to a daemon that was ending: its event may or may not have been written
			optionalKey[loginKey(fmt.Sprint(s.PID), s.User, s.outcome(), s.Addr, s.Port, s.userID())] = true
			continue
		}
		k := loginKey(fmt.Sprint(s.PID), s.User, s.outcome(), s.Addr, s.Port, s.userID())
		want[k]++
		kindOf[k] = s.Kind
	}
	nUnrec := 0
	for _, s := range written {
		if s.Kind == "unrecognised" {
			nUnrec++
		}
	}
	got := map[string]int{}
	for _, ev := range events {
		if ev.Type == "UserLogin" && !ev.sentinel() {
			got[loginKey(ev.Subjects["pid"], ev.Subjects["loggedAs"], ev.Outcome, ev.Source.Value, fmt.Sprint(ev.Source.Extra["port"]), ev.Subjects["userID"])]++
		}
	}
	keys := make([]string, 0, len(want)+len(got))
	for k := range want {
		keys = append(keys, k)
	}
	for k := range got {
		if _, ok := want[k]; !ok {
			keys = append(keys, k)
		}
	}
	sort.Strings(keys)
	for _, k := range keys {
		switch {
		case want[k] > 0 && got[k] != want[k]:
			for _, key := range []string{"e2e:framing", "e2e:login-event"} {
				add(key, "%d %s line(s) written to the sshd pipe produced %d UserLogin event(s), expected %d: %s", want[k], kindOf[k], got[k], want[k], trunc(k))
			}
		case want[k] == 0 && optionalKey[k] && got[k] <= 1:
		case want[k] == 0:
			for _, key := range []string{"e2e:framing", "e2e:login-event", "e2e:unrecognised-silent"} {
				add(key, "%d UserLogin event(s) that no line written to the sshd pipe accounts for (%d lines written, %d of them unrecognised lines that must produce nothing): %s", got[k], len(written), nUnrec, trunc(k))
			}
		}
	}

	// ---- C14 e2e:render
	rp, compared, long := judgeRender(sc, events)
	v.Rendered, v.RenderedLong = compared, long
	for _, p := range rp {
		add("e2e:render", "%s", p)
	}
	return v
}
