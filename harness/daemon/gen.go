//go:build verif

package main

import (
	"encoding/hex"
	"fmt"
	"sort"
	"strings"

	"github.com/metal-toolbox/audito-maldito/internal/verifharness/hutil"
)

// ---------- the generated history (replayable as JSON) ----------

// sshdItem is one line written to the sshd pipe ("<pid> <message>\n") together with the fields of
// the UserLogin event it must produce.
type sshdItem struct {
	Kind    string `json:"kind"` // accepted_password | accepted_key | accepted_cert | failed_password | invalid_user | max_attempts
	PID     int    `json:"pid"`
	User    string `json:"user"`
	Addr    string `json:"addr"`
	Port    string `json:"port"`
	KeyID   string `json:"key_id,omitempty"` // certificate logins
	Pad     int    `json:"pad"`              // extra blanks between the pid and the message (rsyslog's %msg% starts with a blank)
	Msg     string `json:"msg"`
	Session int    `json:"session"` // index of the session plan the line belongs to, -1 = stand-alone
	// the client-chosen field of this line (user name of a failure line, key id of a certificate login) holds text that
	// looks like another record: see hostile.go
	Hostile *hostileInfo `json:"hostile,omitempty"`
	// Episode: the line is not part of a phase; the NEW writer of the writer-restart episode writes it (reader.go)
	Episode bool `json:"after_writer_restart,omitempty"`
}

func (s sshdItem) accepted() bool { return strings.HasPrefix(s.Kind, "accepted") }

func (s sshdItem) userID() string {
	if s.Kind == "accepted_cert" {
		return s.KeyID
	}
	return "unknown"
}

func (s sshdItem) outcome() string {
	if s.accepted() {
		return "succeeded"
	}
	return "failed"
}

func (s sshdItem) text() string {
	return fmt.Sprintf("%d %s%s\n", s.PID, strings.Repeat(" ", s.Pad), s.Msg)
}

// auditItem is one audit event (one record, or the records of one execve event sharing a
// sequence number) written to the audit pipe. TSms is unique within a scenario: the loggedAt
// of an emitted UserAction identifies the input event.
type auditItem struct {
	Role    string `json:"role"` // pre (unset-session preamble) | login (LOGIN record) | event | disp (CRED_DISP) | stray (after CRED_DISP)
	Type    string `json:"type"`
	PID     int    `json:"pid"`
	Ses     string `json:"ses"` // decimal session id; "4294967295" = unset
	TSms    int64  `json:"ts_ms"`
	Seq     int    `json:"seq"`
	NLines  int    `json:"n_lines"`
	Session int    `json:"session"`
	// EXECVE only: bytes of the argument list (0 = two short arguments).  The UserAction carries the arguments
	// (metadata.extra.process_args), so its JSON line is about that long: beyond PIPE_BUF / one page and up to 70 KiB
	ArgBytes int `json:"arg_bytes,omitempty"`
	// EXECVE only: bytes of the executable's path in the event's first PATH record (0 = a short one); the UserAction's
	// object is that path
	PathBytes int `json:"path_bytes,omitempty"`
}

// sessionPlan: one (would-be) SSH session.
//
//	full       accepted sshd login for PID + LOGIN record (pid=PID ses=Ses) + events  -> UserActions expected
//	cron       LOGIN record + events, but no accepted sshd login for PID               -> silent
//	login-only accepted sshd login, no audit records at all                            -> UserLogin only
//	console    events carrying ses=Ses but no LOGIN record (sshd login optional)       -> silent
//	unset      records with ses=4294967295 only, a LOGIN record among them (sshd login optional) -> silent
type sessionPlan struct {
	Kind  string `json:"kind"`
	PID   int    `json:"pid"`
	Ses   int    `json:"ses"`
	Login int    `json:"login"` // index into Sshd of the accepted line, -1 = none
	Audit []int  `json:"audit"` // indexes into Audit, input order
	Order string `json:"order"` // statistics only: where the login was written relative to the session's records
}

// phase: the two pipes are written concurrently by two writers; Cuts are the byte offsets at
// which the text is split into write(2) calls. With Settle the harness waits for the output
// file to become quiet before the next phase starts (so the order between phases is realised).
type phase struct {
	Sshd      string `json:"sshd"`
	SshdCuts  []int  `json:"sshd_cuts"`
	Audit     string `json:"audit"`
	AuditCuts []int  `json:"audit_cuts"`
	GapUs     int    `json:"gap_us"` // pause between two writes of one writer (0 = burst)
	Settle    bool   `json:"settle"`
}

type scenario struct {
	// Big: large events written by both pipelines at the same moment - execve events with long / many arguments
	// (UserAction lines of 4-70 KiB), certificate logins with long key ids and long account names (UserLogin lines
	// beyond 4 KiB, and every UserAction of such a session), no pacing, at least two OS threads; and a BURST on the sshd
	// pipe for as long as the audit pipeline is busy with the large events: after each write of the scenario's own sshd
	// text StormBatch stand-alone failure lines (stormItem) are written, and further batches until the events file holds
	// as many UserActions as the scenario must produce (bounded: stormMax lines, stormBound).  How many that were is an
	// outcome of the run (runResult.Storm); the oracles count them as lines written to the sshd pipe.
	Big        bool          `json:"large_events,omitempty"`
	StormBatch int           `json:"sshd_burst_lines_per_write,omitempty"`
	Prefill    int           `json:"events_file_prefilled_lines,omitempty"` // events already in the output file when the daemon starts (a restart)
	LogLevel   string        `json:"log_level,omitempty"`                   // -log-level of the daemon ("" = its default, info)
	GoMaxProcs int           `json:"gomaxprocs"`                            // GOMAXPROCS of the daemon process, 0 = default (a CPU-limited container runs with 1 or 2)
	Sessions   []sessionPlan `json:"sessions"`
	Sshd       []sshdItem    `json:"sshd"`
	Audit      []auditItem   `json:"audit"`
	Phases     []phase       `json:"phases"`
	// reader-level input classes (reader.go): the last phase holds long records, bursts written in one piece; Restart:
	// after the sentinel the sshd writer leaves an unterminated record behind and closes, a new writer continues
	ReaderLevel bool         `json:"reader_level,omitempty"`
	Restart     *restartPlan `json:"writer_restart,omitempty"`
}

// pids / session ids of generated sessions stay below these; the harness' own sentinel uses them
const (
	sentinelPID  = 3999999
	sentinelSes  = 3999998
	sentinelUser = "verif-sentinel"
	// the second sentinel: written by the new writer of a writer-restart episode (reader.go)
	sentinel2PID  = 3999997
	sentinel2Ses  = 3999996
	sentinel2User = "verif-sentinel-2"
	stormPID     = 5000000 // pids of the burst lines: stormPID + i
	unsetSes     = "4294967295"
)

// ---------- field generators ----------

var nameAlphabet = []string{"a", "b", "k", "z", "Q", "0", "7", "_", ".", "-", "é", "日"}

func genName(r *hutil.Rand) string {
	switch r.Intn(6) {
	case 0:
		return "root"
	case 1:
		return "core"
	}
	n := 1 + r.Intn(10)
	var sb strings.Builder
	for i := 0; i < n; i++ {
		sb.WriteString(hutil.Pick(r, nameAlphabet))
	}
	return sb.String()
}

func genAddr(r *hutil.Rand) string {
	switch r.Intn(5) {
	case 0:
		return fmt.Sprintf("2001:db8::%x:%x", r.Intn(65536), r.Intn(65536))
	case 1:
		return "127.0.0.1"
	case 2:
		return fmt.Sprintf("fe80::%x%%eth%d", r.Intn(65536), r.Intn(4))
	}
	return fmt.Sprintf("%d.%d.%d.%d", 1+r.Intn(223), r.Intn(256), r.Intn(256), 1+r.Intn(254))
}

const b64 = "ABCDEFGHIJKLMNOPQRSTUVWXYZabcdefghijklmnopqrstuvwxyz0123456789+/"

func genFP(r *hutil.Rand) string {
	var sb strings.Builder
	for i := 0; i < 43; i++ {
		sb.WriteByte(b64[r.Intn(64)])
	}
	return "SHA256:" + sb.String()
}

var keyTypes = []string{"RSA", "ECDSA", "ED25519", "ED25519-SK", "RSA-CERT", "ED25519-CERT"}

func genKeyID(r *hutil.Rand) string {
	switch r.Intn(4) {
	case 0:
		return genName(r) + "@example.com"
	case 1:
		return "user with spaces"
	}
	return genName(r)
}

func genSshd(r *hutil.Rand, kind string, pid, session int, user string) sshdItem {
	return genSshdWith(r, kind, pid, session, user, "")
}

// genSshdCert: a certificate login with the given key id.
func genSshdCert(r *hutil.Rand, pid, session int, user, keyID string) sshdItem {
	return genSshdWith(r, "accepted_cert", pid, session, user, keyID)
}

func genSshdWith(r *hutil.Rand, kind string, pid, session int, user, keyID string) sshdItem {
	it := sshdItem{Kind: kind, PID: pid, User: user, Addr: genAddr(r), Port: fmt.Sprint(1 + r.Intn(65535)),
		Pad: []int{0, 0, 1, 2}[r.Intn(4)], Session: session}
	switch kind {
	case "accepted_password":
		it.Msg = fmt.Sprintf("Accepted password for %s from %s port %s ssh2", it.User, it.Addr, it.Port)
	case "accepted_key":
		it.Msg = fmt.Sprintf("Accepted publickey for %s from %s port %s ssh2: %s %s", it.User, it.Addr, it.Port, hutil.Pick(r, keyTypes), genFP(r))
	case "accepted_cert":
		it.KeyID = genKeyID(r)
		if keyID != "" {
			it.KeyID = keyID
		}
		it.Msg = fmt.Sprintf("Accepted publickey for %s from %s port %s ssh2: %s %s ID %s (serial %d) CA %s %s",
			it.User, it.Addr, it.Port, hutil.Pick(r, keyTypes[4:]), genFP(r), it.KeyID, r.Intn(100000), hutil.Pick(r, keyTypes[:4]), genFP(r))
	case "failed_password":
		it.Msg = fmt.Sprintf("Failed password for %s from %s port %s ssh2", it.User, it.Addr, it.Port)
	case "invalid_user":
		it.Msg = fmt.Sprintf("Invalid user %s from %s port %s", it.User, it.Addr, it.Port)
	case "max_attempts":
		it.Msg = fmt.Sprintf("maximum authentication attempts exceeded for %s from %s port %s ssh2", it.User, it.Addr, it.Port)
	default:
		panic("unknown sshd kind " + kind)
	}
	return it
}

var eventTypes = []string{"USER_START", "USER_CMD", "EXECVE", "USER_END", "USER_LOGIN", "CRED_REFR", "USER_ACCT", "EXECVE", "USER_CMD"}
var preTypes = []string{"USER_AUTH", "USER_ACCT", "CRED_ACQ"}

// renderAudit renders the record(s) of one audit event as raw audit.log lines.
func renderAudit(r *hutil.Rand, a *auditItem, acct string) string {
	stamp := fmt.Sprintf("audit(%d.%03d:%d)", a.TSms/1000, a.TSms%1000, a.Seq)
	auid := "1000"
	if a.Ses == unsetSes {
		auid = unsetSes
	}
	enrich := ""
	if r.Chance(1, 3) {
		enrich = "\x1dUID=\"root\" AUID=\"" + acct + "\""
	}
	pam := func(typ, op string) string {
		return fmt.Sprintf("type=%s msg=%s: pid=%d uid=0 auid=%s ses=%s msg='op=%s grantors=pam_unix,pam_permit acct=\"%s\" exe=\"/usr/sbin/sshd\" hostname=10.0.0.1 addr=10.0.0.1 terminal=ssh res=success'%s\n",
			typ, stamp, a.PID, auid, a.Ses, op, acct, enrich)
	}
	a.NLines = 1
	switch a.Type {
	case "LOGIN":
		return fmt.Sprintf("type=LOGIN msg=%s: pid=%d uid=0 old-auid=4294967295 auid=1000 tty=(none) old-ses=4294967295 ses=%s res=1%s\n", stamp, a.PID, a.Ses, enrich)
	case "USER_START":
		return pam(a.Type, "PAM:session_open")
	case "USER_END":
		return pam(a.Type, "PAM:session_close")
	case "USER_ACCT":
		return pam(a.Type, "PAM:accounting")
	case "USER_AUTH":
		return pam(a.Type, "PAM:authentication")
	case "CRED_ACQ", "CRED_REFR", "CRED_DISP":
		return pam(a.Type, "PAM:setcred")
	case "USER_LOGIN":
		return fmt.Sprintf("type=USER_LOGIN msg=%s: pid=%d uid=0 auid=%s ses=%s msg='op=login id=1000 exe=\"/usr/sbin/sshd\" hostname=10.0.0.1 addr=10.0.0.1 terminal=/dev/pts/%d res=success'%s\n",
			stamp, a.PID, auid, a.Ses, r.Intn(9), enrich)
	case "USER_CMD":
		cmd := strings.ToUpper(hex.EncodeToString([]byte(hutil.Pick(r, []string{"ls -la", "cat /etc/shadow", "systemctl restart sshd", "id"}))))
		return fmt.Sprintf("type=USER_CMD msg=%s: pid=%d uid=1000 auid=%s ses=%s msg='cwd=\"/home/%s\" cmd=%s exe=\"/usr/bin/sudo\" terminal=pts/0 res=success'%s\n",
			stamp, a.PID+1+r.Intn(50), auid, a.Ses, "u", cmd, enrich)
	case "EXECVE":
		// the records of one execve event as auditd writes them: contiguous, one sequence number, PROCTITLE last
		prog := hutil.Pick(r, []string{"ls", "cat", "vim", "curl"})
		arg := hutil.Pick(r, []string{"--color=auto", "/etc/passwd", "-x", "http://example.com/a?b=c&d=<e>"})
		execve := fmt.Sprintf("type=EXECVE msg=%s: argc=2 a0=\"%s\" a1=\"%s\"", stamp, prog, arg)
		if a.ArgBytes > 0 {
			args := genBigArgs(r, a.ArgBytes)
			var sb strings.Builder
			fmt.Fprintf(&sb, "type=EXECVE msg=%s: argc=%d a0=\"%s\"", stamp, len(args)+1, prog)
			for i, x := range args {
				fmt.Fprintf(&sb, " a%d=%s", i+1, x)
			}
			execve = sb.String()
			arg = "-big"
		}
		exePath := "/usr/bin/" + prog
		if a.PathBytes > 0 {
			const plain = "abcdefghijklmnopqrstuvwxyz0123456789-_."
			var sb strings.Builder
			sb.WriteString("/opt")
			for sb.Len() < a.PathBytes {
				sb.WriteByte('/')
				for k := 3 + r.Intn(40); k > 0; k-- {
					sb.WriteByte(plain[r.Intn(len(plain))])
				}
			}
			exePath = sb.String() + "/" + prog
		}
		lines := []string{
			fmt.Sprintf("type=SYSCALL msg=%s: arch=c000003e syscall=59 success=yes exit=0 a0=56430ae99960 a1=56430aea8040 a2=56430aef7f30 a3=8 items=2 ppid=%d pid=%d auid=%s uid=1000 gid=1000 euid=1000 suid=1000 fsuid=1000 egid=1000 sgid=1000 fsgid=1000 tty=pts3 ses=%s comm=\"%s\" exe=\"/usr/bin/%s\" key=\"operator-commands\"",
				stamp, a.PID, a.PID+1+r.Intn(50), auid, a.Ses, prog, prog),
			execve,
			fmt.Sprintf("type=CWD msg=%s: cwd=\"/home/u\"", stamp),
			fmt.Sprintf("type=PATH msg=%s: item=0 name=\"%s\" inode=1442550 dev=fd:00 mode=0100755 ouid=0 ogid=0 rdev=00:00 nametype=NORMAL cap_fp=0 cap_fi=0 cap_fe=0 cap_fver=0 cap_frootid=0", stamp, exePath),
			fmt.Sprintf("type=PATH msg=%s: item=1 name=\"/lib64/ld-linux-x86-64.so.2\" inode=1448144 dev=fd:00 mode=0100755 ouid=0 ogid=0 rdev=00:00 nametype=NORMAL cap_fp=0 cap_fi=0 cap_fe=0 cap_fver=0 cap_frootid=0", stamp),
			fmt.Sprintf("type=PROCTITLE msg=%s: proctitle=%s", stamp, strings.ToUpper(hex.EncodeToString([]byte(prog+"\x00"+arg)))),
		}
		a.NLines = len(lines)
		return strings.Join(lines, "\n") + "\n"
	}
	panic("unknown audit type " + a.Type)
}

// genBigArgs: an argument list of about total bytes as auditd writes it - a quoted string for plain words, upper-case
// hex for anything with blanks, quotes or non-ASCII bytes; many short arguments, a few very long ones, or a mix.
func genBigArgs(r *hutil.Rand, total int) []string {
	const plain = "abcdefghijklmnopqrstuvwxyzABCDEFGHIJKLMNOPQRSTUVWXYZ0123456789-_./=:,+@%"
	rich := []string{"a", "e", "o", " ", " ", "\"", "'", "\\", "{", "}", ":", ",", "\t", "é", "日", "<", "&", "x", "y", "0"}
	style := r.Intn(3)
	var out []string
	for left := total; left > 0; {
		n := 0
		switch style {
		case 0: // many short
			n = 4 + r.Intn(40)
		case 1: // few long
			n = 1000 + r.Intn(8000)
		default:
			n = []int{1 + r.Intn(16), 20 + r.Intn(200), 500 + r.Intn(3000), 4000 + r.Intn(200)}[r.Intn(4)]
		}
		if n > left {
			n = left
		}
		left -= n
		var sb strings.Builder
		if r.Chance(1, 3) {
			for sb.Len() < n {
				sb.WriteString(hutil.Pick(r, rich))
			}
			out = append(out, strings.ToUpper(hex.EncodeToString([]byte(sb.String()))))
		} else {
			sb.WriteByte('"')
			for i := 0; i < n; i++ {
				sb.WriteByte(plain[r.Intn(len(plain))])
			}
			sb.WriteByte('"')
			out = append(out, sb.String())
		}
	}
	return out
}

// stormItem: the i-th line of the burst on the sshd pipe (its own sshd process each).
func stormItem(i int) sshdItem {
	it := sshdItem{Kind: "invalid_user", PID: stormPID + i, User: fmt.Sprintf("burst-%d", i), Addr: "192.0.2.7", Port: fmt.Sprint(1024 + i%60000), Session: -1}
	if i%3 == 1 {
		it.Kind = "failed_password"
		it.Msg = fmt.Sprintf("Failed password for %s from %s port %s ssh2", it.User, it.Addr, it.Port)
	} else {
		it.Msg = fmt.Sprintf("Invalid user %s from %s port %s", it.User, it.Addr, it.Port)
	}
	return it
}

// mandatoryActions: how many UserActions the scenario must produce (LOGIN record, events and disposal record of the
// sessions with both halves).
func (sc *scenario) mandatoryActions() int {
	n := 0
	for _, sp := range sc.Sessions {
		if sp.Kind != "full" {
			continue
		}
		for _, ai := range sp.Audit {
			switch sc.Audit[ai].Role {
			case "login", "event", "disp":
				n++
			}
		}
	}
	return n
}

// genLong: a long account name / key id (sshd logs what the client or the CA chose)
func genLong(r *hutil.Rand, lo, hi int, blanks bool) string {
	n := lo + r.Intn(hi-lo)
	var sb strings.Builder
	for sb.Len() < n {
		sb.WriteString(hutil.Pick(r, nameAlphabet))
		if blanks && r.Chance(1, 12) {
			sb.WriteByte(' ')
		}
	}
	return strings.TrimSpace(sb.String()) + "z"
}

// ---------- scenario generator ----------

type protoItem struct {
	sshd  *sshdItem
	audit *auditItem
	acct  string
	index int // index into scenario.Sshd / scenario.Audit once merged
	phase int
	text  string
}

func genScenario(r *hutil.Rand, big bool) *scenario {
	nSess := 1 + r.Intn(8)
	sc := &scenario{GoMaxProcs: []int{0, 0, 0, 1, 2, 4}[r.Intn(6)]}
	if r.Chance(1, 3) {
		sc.LogLevel = "debug"
	}
	if r.Chance(1, 4) {
		sc.Prefill = 1 + r.Intn(3)
	}
	if big {
		sc.Big = true
		sc.GoMaxProcs = []int{0, 0, 2, 4}[r.Intn(4)] // the two pipelines must be able to write at the same moment
		sc.StormBatch = []int{1, 5, 20, 60}[r.Intn(4)]
	}
	// sizes: mostly just beyond one page (such an event costs the audit pipeline about a millisecond, so many of them fit
	// into the time the sshd pipeline needs for its failure lines), some of 9-20 KiB, a few up to 70 KiB
	outBudget := 1500000 // bytes that sessions with a long identity add to the events file, per scenario
	bigBudget := 160000 // bytes of arguments per scenario (keeps run time and replay files bounded)
	bigSize := func() int {
		n := []int{3000 + r.Intn(1300), 4300 + r.Intn(2000), 4300 + r.Intn(4700), 5000 + r.Intn(4000), 6000 + r.Intn(3000),
			9000 + r.Intn(11000), 9000 + r.Intn(11000), 20000 + r.Intn(50000)}[r.Intn(8)]
		if n > bigBudget {
			n = 0
		}
		bigBudget -= n
		return n
	}
	var seqs [][]*protoItem // per session: its items in the order they must be written
	var users []string      // per session: the account of its (would-be) login
	usedPID := map[int]bool{}
	usedSes := map[int]bool{}
	newPID := func() int {
		for {
			p := []int{300, 3000, 30000, 2000000}[r.Intn(4)] + r.Intn(2500)
			if !usedPID[p] {
				usedPID[p] = true
				return p
			}
		}
	}
	newSes := func() int {
		for {
			s := []int{1, 1, 40, 5000, 300}[r.Intn(5)] + r.Intn(60)
			if !usedSes[s] {
				usedSes[s] = true
				return s
			}
		}
	}
	acceptedKind := func() string {
		return hutil.Pick(r, []string{"accepted_password", "accepted_password", "accepted_password", "accepted_key", "accepted_cert", "accepted_cert"})
	}
	au := func(role, typ string, pid int, ses string, si int, acct string) *protoItem {
		return &protoItem{audit: &auditItem{Role: role, Type: typ, PID: pid, Ses: ses, Session: si}, acct: acct}
	}
	for i := 0; i < nSess; i++ {
		kind := "full"
		if i > 0 || r.Chance(1, 4) {
			kind = hutil.Pick(r, []string{"full", "full", "full", "full", "full", "cron", "cron", "login-only", "console", "console", "unset"})
		}
		sp := sessionPlan{Kind: kind, PID: newPID(), Ses: newSes(), Login: -1}
		ses := fmt.Sprint(sp.Ses)
		user := genName(r)
		longKey := "" // large-event scenarios: a certificate login with a key id of some KiB
		if sc.Big && r.Chance(1, 4) {
			user = genLong(r, 200, 3000, false)
		}
		if sc.Big && r.Chance(1, 2) {
			longKey = genLong(r, 1000, 9000, true)
		}
		var audit []*protoItem
		switch kind {
		case "full", "cron":
			if r.Bool() { // what sshd logs before the session id is assigned
				for k := 1 + r.Intn(3); k > 0; k-- {
					audit = append(audit, au("pre", hutil.Pick(r, preTypes), sp.PID, unsetSes, i, user))
				}
			}
			audit = append(audit, au("login", "LOGIN", sp.PID, ses, i, user))
			nEv := r.Intn(7)
			if sc.Big {
				nEv = 2 + r.Intn(10)
			}
			// every UserAction carries the login's account and key id: with a long identity each event of the
			// session is a large output line however short its audit record - many such events, written in
			// quick succession by the audit pipeline
			longIdentity := false
			if id := len(user) + len(longKey); sc.Big && id > 3500 {
				longIdentity = true
				nEv = 20 + r.Intn(100)
				if nEv*id > outBudget {
					nEv = outBudget / id
				}
				outBudget -= nEv * id
			}
			for k := nEv; k > 0; k-- {
				it := au("event", hutil.Pick(r, eventTypes), sp.PID, ses, i, user)
				if sc.Big && !longIdentity && r.Chance(2, 3) {
					it.audit.Type = "EXECVE"
					it.audit.ArgBytes = bigSize()
				}
				audit = append(audit, it)
			}
			if r.Chance(3, 5) {
				audit = append(audit, au("disp", "CRED_DISP", sp.PID, ses, i, user))
				if r.Chance(1, 3) {
					for k := 1 + r.Intn(2); k > 0; k-- {
						audit = append(audit, au("stray", hutil.Pick(r, eventTypes), sp.PID, ses, i, user))
					}
				}
			}
		case "console":
			for k := 1 + r.Intn(4); k > 0; k-- {
				audit = append(audit, au("event", hutil.Pick(r, eventTypes), sp.PID, ses, i, user))
			}
			if r.Bool() {
				audit = append(audit, au("disp", "CRED_DISP", sp.PID, ses, i, user))
			}
		case "unset":
			for k := 1 + r.Intn(4); k > 0; k-- {
				audit = append(audit, au("pre", hutil.Pick(r, append(append([]string{}, preTypes...), "EXECVE", "USER_CMD")), sp.PID, unsetSes, i, user))
			}
			if r.Bool() { // even a LOGIN record opens no session when its session id is unset
				k := r.Intn(len(audit) + 1)
				audit = append(audit[:k], append([]*protoItem{au("pre", "LOGIN", sp.PID, unsetSes, i, user)}, audit[k:]...)...)
			}
		}
		// the sshd side of the session: failed attempts of the same sshd process first, then the accepted line
		var sshdSide []*protoItem
		if r.Chance(1, 4) {
			for k := 1 + r.Intn(2); k > 0; k-- {
				it := genSshd(r, "failed_password", sp.PID, i, hutil.Pick(r, []string{user, user, genName(r)}))
				sshdSide = append(sshdSide, &protoItem{sshd: &it})
			}
		}
		hasLogin := kind == "full" || kind == "login-only" || ((kind == "console" || kind == "unset") && r.Bool())
		var loginItem *protoItem
		if hasLogin {
			it := genSshd(r, acceptedKind(), sp.PID, i, user)
			if longKey != "" {
				it = genSshdCert(r, sp.PID, i, user, longKey)
			} else if it.Kind == "accepted_cert" && i > 0 && r.Chance(1, 4) {
				// this session's OWN certificate carries a key id (chosen by whoever had it signed) that looks like the
				// accepted-login record of an earlier session's sshd process: it is this session's userID, nothing more
				ti := r.Intn(i)
				kid, info := genHostileText(r, sc.Sessions[ti].PID, otherUser(r, users, ti), true)
				info.Field, info.Target, info.Position = "key-id", ti, "own-login-of-a-later-session"
				it = genSshdCert(r, sp.PID, i, user, kid)
				it.Hostile = &info
			}
			loginItem = &protoItem{sshd: &it}
			sshdSide = append(sshdSide, loginItem)
		}
		// insert the sshd side at a random position of the audit side (before the LOGIN record, between events, after CRED_DISP, ...)
		seq := audit
		if len(sshdSide) > 0 {
			pos := r.Intn(len(audit) + 1)
			if kind == "full" {
				li, end := 0, len(audit) // index of the LOGIN record; index just after the last mandatory record
				for k, it := range audit {
					if it.audit.Role == "login" {
						li = k
					}
					if it.audit.Role == "stray" && end == len(audit) {
						end = k
					}
				}
				switch c := r.Intn(10); {
				case c < 3: // before the LOGIN record
					pos = r.Intn(li + 1)
				case c < 6 && end-li > 1: // between the session's records
					pos = li + 1 + r.Intn(end-li-1)
				case c < 9: // after CRED_DISP / the last record
					pos = end
				default: // after the strays too
					pos = len(audit)
				}
			}
			seq = append(append(append([]*protoItem{}, audit[:pos]...), sshdSide...), audit[pos:]...)
		}
		seqs = append(seqs, seq)
		users = append(users, user)
		sc.Sessions = append(sc.Sessions, sp)
	}
	// stand-alone failures (their own sshd processes)
	for k := 1 + r.Intn(3); k > 0; k-- {
		it := genSshd(r, hutil.Pick(r, []string{"failed_password", "invalid_user", "invalid_user"}), newPID(), -1, genName(r))
		n := 1
		if it.Kind == "failed_password" && r.Chance(1, 3) {
			n = 2 // the same message twice: two events expected
		}
		var s []*protoItem
		for ; n > 0; n-- {
			c := it
			s = append(s, &protoItem{sshd: &c})
		}
		seqs = append(seqs, s)
	}

	// hostile client-chosen text (hostile.go): failure lines of OTHER sshd processes - and certificate logins of further
	// login-only sessions - whose client-chosen field looks like an accepted-login record of one of the scenario's
	// sessions (every session kind is a target); each is put into the target session's own sequence, before / after its
	// LOGIN record and its genuine login, so that the arrival order relative to them is the generated one
	if r.Chance(3, 4) {
		nSessions := len(sc.Sessions) // targets: the sessions generated above
		for k := 1 + r.Intn(3); k > 0; k-- {
			ti := r.Intn(nSessions)
			if sc.Sessions[ti].Kind != "full" && r.Bool() { // prefer sessions that must produce UserActions
				for tries := 0; tries < 8 && sc.Sessions[ti].Kind != "full"; tries++ {
					ti = r.Intn(nSessions)
				}
			}
			var it sshdItem
			if r.Chance(1, 5) {
				// carrier: the certificate login of a further sshd process without audit session; key-id domain
				kid, info := genHostileText(r, sc.Sessions[ti].PID, otherUser(r, users, ti), true)
				info.Field, info.Target = "key-id", ti
				sp := sessionPlan{Kind: "login-only", PID: newPID(), Ses: newSes(), Login: -1}
				it = genSshdCert(r, sp.PID, len(sc.Sessions), genName(r), kid)
				it.Hostile = &info
				sc.Sessions = append(sc.Sessions, sp)
			} else {
				name, info := genHostileText(r, sc.Sessions[ti].PID, otherUser(r, users, ti), false)
				info.Field, info.Target = "user-name", ti
				it = genHostileFailure(r, hutil.Pick(r, hostileCarriers), newPID(), -1, name)
				it.Hostile = &info
			}
			at, where := hostilePosition(r, seqs[ti])
			it.Hostile.Position = where
			item := &protoItem{sshd: &it}
			seqs[ti] = append(append(append([]*protoItem{}, seqs[ti][:at]...), item), seqs[ti][at:]...)
		}
	}

	// merge: random interleaving that keeps each sequence's order; sometimes runs of one sequence
	var merged []*protoItem
	for {
		var live []int
		for i, s := range seqs {
			if len(s) > 0 {
				live = append(live, i)
			}
		}
		if len(live) == 0 {
			break
		}
		i := hutil.Pick(r, live)
		run := 1
		if r.Chance(1, 3) {
			run = 1 + r.Intn(5)
		}
		for ; run > 0 && len(seqs[i]) > 0; run-- {
			merged = append(merged, seqs[i][0])
			seqs[i] = seqs[i][1:]
		}
	}

	// phases: cut the merged history at random item positions, half of them just before or after an accepted
	// login (so that "records first, login later" and "login first, records later" are really realised)
	nPh := 1 + r.Intn(5)
	if sc.Big {
		nPh = 1 // the burst on the sshd pipe (see run.go: storm) accompanies the whole history
	}
	if nPh > len(merged) {
		nPh = 1
	}
	var nearLogin []int
	for i, it := range merged {
		if it.sshd != nil && (it.sshd.accepted() || it.sshd.Hostile != nil) {
			if i > 0 {
				nearLogin = append(nearLogin, i)
			}
			if i+1 < len(merged) {
				nearLogin = append(nearLogin, i+1)
			}
		}
	}
	cutAt := map[int]bool{}
	for tries := 0; len(cutAt) < nPh-1 && tries < 50; tries++ {
		if len(nearLogin) > 0 && r.Bool() {
			cutAt[hutil.Pick(r, nearLogin)] = true
		} else {
			cutAt[1+r.Intn(len(merged)-1)] = true
		}
	}
	nPh = len(cutAt) + 1
	ph := 0
	for i, it := range merged {
		if cutAt[i] {
			ph++
		}
		it.phase = ph
	}

	// number and render in written order: audit stamps increase along the audit stream as in a real audit.log
	ts := int64(1700000000000) + int64(r.Intn(1000000))*1000 + int64(r.Intn(1000))
	seqNo := 1000 + r.Intn(100000)
	for _, it := range merged {
		if it.audit != nil {
			ts += int64(1 + r.Intn(40))
			if r.Chance(1, 6) {
				ts += int64(r.Intn(5000))
			}
			seqNo++
			if r.Chance(1, 10) {
				seqNo += 1 + r.Intn(3) // records of unrelated, filtered-out events
			}
			it.audit.TSms, it.audit.Seq = ts, seqNo
			it.text = renderAudit(r, it.audit, it.acct)
			it.index = len(sc.Audit)
			sc.Audit = append(sc.Audit, *it.audit)
			if si := it.audit.Session; si >= 0 {
				sc.Sessions[si].Audit = append(sc.Sessions[si].Audit, it.index)
			}
		} else {
			it.text = it.sshd.text()
			it.index = len(sc.Sshd)
			sc.Sshd = append(sc.Sshd, *it.sshd)
			if si := it.sshd.Session; si >= 0 && it.sshd.accepted() {
				sc.Sessions[si].Login = it.index
			}
		}
	}

	// texts per phase and pipe; sometimes the tail of a phase's last line is carried into the next phase
	// (the line is then completed only after the settle wait)
	type stream struct {
		sb   strings.Builder
		last *protoItem
	}
	streams := make([][2]*stream, nPh)
	for i := range streams {
		streams[i] = [2]*stream{{}, {}}
	}
	for _, it := range merged {
		k := 0
		if it.audit != nil {
			k = 1
		}
		st := streams[it.phase][k]
		st.sb.WriteString(it.text)
		st.last = it
	}
	texts := make([][2]string, nPh)
	for p := 0; p < nPh; p++ {
		for k := 0; k < 2; k++ {
			texts[p][k] += streams[p][k].sb.String()
			if p+1 < nPh && streams[p][k].last != nil && r.Chance(1, 3) {
				t := texts[p][k]
				n := 1 + r.Intn(len(streams[p][k].last.text))
				texts[p][k] = t[:len(t)-n]
				texts[p+1][k] = t[len(t)-n:]
				streams[p][k].last.phase = p + 1 // completed in the next phase
			}
		}
	}
	for p := 0; p < nPh; p++ {
		pp := phase{Sshd: texts[p][0], Audit: texts[p][1], Settle: r.Chance(4, 5)}
		class := r.Intn(4)
		pp.SshdCuts = genCuts(r, len(pp.Sshd), class)
		pp.AuditCuts = genCuts(r, len(pp.Audit), []int{class, r.Intn(4)}[r.Intn(2)])
		if sc.Big {
			// whole records or page-sized pieces, no pacing: the pipelines run at full speed
			pp.SshdCuts = genCuts(r, len(pp.Sshd), 2+r.Intn(2))
			pp.AuditCuts = genCuts(r, len(pp.Audit), 2+r.Intn(2))
		} else if len(pp.SshdCuts)+len(pp.AuditCuts) < 60 {
			pp.GapUs = []int{0, 0, 30, 300, 1500}[r.Intn(5)]
		}
		sc.Phases = append(sc.Phases, pp)
	}

	// statistics: where did the login go relative to the session's LOGIN record and its last mandatory record
	pos := map[*protoItem]int{}
	for i, it := range merged {
		pos[it] = i
	}
	for si := range sc.Sessions {
		sp := &sc.Sessions[si]
		if sp.Kind != "full" {
			continue
		}
		var login, first, last *protoItem
		for _, it := range merged {
			switch {
			case it.sshd != nil && it.sshd.Session == si && it.sshd.accepted():
				login = it
			case it.audit != nil && it.audit.Session == si && it.audit.Role == "login":
				first, last = it, it
			case it.audit != nil && it.audit.Session == si && (it.audit.Role == "event" || it.audit.Role == "disp"):
				last = it
			}
		}
		var ref *protoItem
		switch {
		case pos[login] < pos[first]:
			sp.Order, ref = "login-before-LOGIN-record", first
		case pos[login] > pos[last]:
			sp.Order, ref = "login-after-last-record", last
		default:
			sp.Order, ref = "login-between-records", first
		}
		lo, hi := login.phase, ref.phase
		if lo > hi {
			lo, hi = hi, lo
		}
		settled := false
		for p := lo; p < hi; p++ {
			settled = settled || sc.Phases[p].Settle
		}
		if !settled {
			sp.Order += "/racing"
		} else {
			sp.Order += "/settled"
		}
	}
	return sc
}

// genCuts picks the byte offsets at which a text is split into writes.
// class 0: tiny writes (1-7 bytes), 1: up to 100 bytes, 2: up to 4096 bytes, 3: one write.
func genCuts(r *hutil.Rand, n, class int) []int {
	cuts := []int{}
	if n == 0 || class == 3 {
		return cuts
	}
	maxLen := []int{7, 100, 4096}[class]
	for off := 1 + r.Intn(maxLen); off < n; off += 1 + r.Intn(maxLen) {
		cuts = append(cuts, off)
	}
	return cuts
}

// chunks splits text at the cuts (invalid cuts of a hand-edited replay file are ignored).
func chunks(text string, cuts []int) []string {
	cs := append([]int{}, cuts...)
	sort.Ints(cs)
	var out []string
	prev := 0
	for _, c := range cs {
		if c <= prev || c >= len(text) {
			continue
		}
		out = append(out, text[prev:c])
		prev = c
	}
	if prev < len(text) {
		out = append(out, text[prev:])
	}
	return out
}

type writeStats struct{ writes, split, multi int }

func (sc *scenario) writeStats() writeStats {
	var ws writeStats
	for _, p := range sc.Phases {
		for _, t := range [][]string{chunks(p.Sshd, p.SshdCuts), chunks(p.Audit, p.AuditCuts)} {
			for _, c := range t {
				ws.writes++
				if !strings.HasSuffix(c, "\n") {
					ws.split++
				}
				if strings.Count(c, "\n") > 1 {
					ws.multi++
				}
			}
		}
	}
	return ws
}

// prefillBytes: what an earlier run of the daemon left in the events file (whole events, one per line)
func prefillBytes(n int) []byte {
	var b []byte
	for i := 0; i < n; i++ {
		b = append(b, fmt.Sprintf(`{"metadata":{"auditId":"earlier-run-%d"},"type":"UserLogin","loggedAt":"2020-01-01T00:00:0%dZ","source":{"type":"IP","value":"192.0.2.%d","extra":{"port":"40%d"}},"outcome":"failed","subjects":{"loggedAs":"account-of-an-earlier-run-with-a-long-name-%d","pid":"%d","userID":"unknown"},"component":"sshd","target":{"host":"earlier","machine-id":"earlier"}}`+"\n", i, i, i+1, i, i, 100+i)...)
	}
	return b
}
