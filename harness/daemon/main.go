//go:build verif

// End-to-end harness: the BUILT DAEMON BINARY (go build of the working tree) runs on two real
// FIFOs; a generated history of SSH sessions (sshd lines on one pipe, raw audit.log records on
// the other, random relative timing, bursts, writes split at arbitrary byte boundaries) is fed
// to it and the oracles of C01, C02, C04, C07 and C10 are evaluated on the output file, from
// the generated history alone.  One daemon process per scenario.  No Coq case files.
package main

import (
	"bytes"
	"encoding/json"
	"flag"
	"fmt"
	"os"
	"path/filepath"
	"sync"
	"time"

	"github.com/metal-toolbox/audito-maldito/internal/verifharness/hutil"
)

const parallel = 3

func selected(prop, key string) bool { return prop == "ALL" || keyProp[key] == prop }

func main() {
	out := flag.String("out", "", "output directory")
	prop := flag.String("prop", "ALL", "C01 | C02 | C04 | C06 | C07 | C10 | C11 | C14 | ALL: which oracle keys are reported")
	n := flag.Int("n", 6, "scenarios (one daemon process each)")
	replay := flag.String("replay", "", "replay file")
	flag.Parse()
	switch *prop {
	case "ALL", "C01", "C02", "C04", "C06", "C07", "C10", "C11", "C14":
	default:
		fmt.Println("unknown -prop", *prop)
		os.Exit(2)
	}
	seed := hutil.SeedFromEnv()
	if *out == "" {
		*out = "."
	}
	if err := os.MkdirAll(*out, 0o755); err != nil {
		fmt.Println("cannot create output dir:", err)
		os.Exit(2)
	}
	tmp, err := os.MkdirTemp("", "verif-daemon-")
	if err != nil {
		fmt.Println("cannot create temp dir:", err)
		os.Exit(2)
	}
	rc := run(*out, *prop, *n, *replay, seed, tmp)
	os.RemoveAll(tmp)
	os.Exit(rc)
}

func run(out, prop string, n int, replay string, seed uint64, tmp string) int {
	t0 := time.Now()
	sum := hutil.NewSummary(prop, seed,
		"one daemon process per scenario, fed through two real FIFOs: 1-8 sessions (accepted password / publickey / certificate login + LOGIN record + 0-6 events + optional CRED_DISP + optional strays; "+
			"cron-like sessions without sshd login; console-like sessions without LOGIN record; unset-session records; sshd logins without audit session; failed-password / invalid-user lines), "+
			"three scenarios in four with HOSTILE CLIENT-CHOSEN TEXT: failure lines (invalid user / failed password / maximum authentication attempts, with and without sshd's 'invalid user ' prefix) of other sshd processes whose user name - and certificate logins whose key id - "+
			"is a complete accepted-password / accepted-publickey / certificate message for the PID of another session of the scenario under another account, behind every syslog decoration a parser might honour (sshd[PID]: / sshd-session[PID]: tags, a '<PID> ' column, "+
			"BSD / ISO timestamp + host prefixes, PRI, RFC 5424, journald / JSON field syntax; after nothing, a word, CR, VT, FF, U+2028, U+0085, escaped newlines, tab, NUL), written before / after that session's LOGIN record and its genuine login: such a name must simply be recorded as a name, "+
			"1-4 phases in which both pipes are written concurrently with writes split at arbitrary byte offsets; one scenario in four with LARGE events (execve events whose argument list makes the "+
			"UserAction line 4-70 KiB, certificate logins with key ids / account names of some KiB, a burst of stand-alone failure lines on the sshd pipe for as long as the audit pipeline is writing the large events, no pacing, GOMAXPROCS >= 2); oracles evaluated on the output file from the generated history alone; "+
			"non-trivial = at least one session with both halves, at least one UserAction in the output and completeness established by the sentinel; distinct by scenario")
	sum.CaseFiles = nil
	finish := func() {
		sum.Notes = append(sum.Notes, fmt.Sprintf("wall %.1fs", time.Since(t0).Seconds()))
		sum.Write(out)
	}
	if _, err := os.ReadFile("/etc/machine-id"); err != nil {
		sum.FailKey("harness", "harness:machine-id", "the daemon needs a readable /etc/machine-id: "+err.Error(), nil)
		finish()
		return 2
	}
	bin, err := buildDaemon(tmp)
	if err != nil {
		if replay != "" {
			fmt.Println("cannot build the daemon:", err)
			return 2
		}
		sum.FailKey("harness", "harness:build", err.Error(), nil)
		finish()
		return 2
	}
	buildSecs := time.Since(t0).Seconds()
	if replay != "" {
		return doReplay(replay, prop, bin, tmp)
	}

	// hutil.NewRand(k) and NewRand(k+1) yield the same stream shifted by one draw: hash the seed first
	r := hutil.NewRand(hutil.NewRand(seed ^ 0xDAE404).U64())
	scs := make([]*scenario, n)
	for i := range scs {
		scs[i] = genScenario(r, i%4 == 2) // generation is sequential: deterministic in the seed; every fourth scenario with large events
		if i%4 == 0 {
			addReaderLevel(r, scs[i]) // every fourth scenario with the reader-level input classes (reader.go)
		}
	}
	results := make([]runResult, n)
	var wg sync.WaitGroup
	sem := make(chan struct{}, parallel)
	for i := 0; i < n; i++ {
		wg.Add(1)
		sem <- struct{}{}
		go func(i int) {
			defer wg.Done()
			defer func() { <-sem }()
			results[i] = runScenario(bin, filepath.Join(tmp, fmt.Sprintf("s%d", i)), scs[i])
		}(i)
	}
	wg.Wait()

	for i, sc := range scs {
		res := results[i]
		v := judge(sc, res.Output, res.Storm, res.Survived)
		record(sum, prop, sc, res, v, i)
	}
	sum.Notes = append(sum.Notes, fmt.Sprintf("daemon built from %s in %.1fs", repoDir(), buildSecs))
	finish()
	fmt.Printf("%s: %d scenarios, %d failures, %.1fs\n", prop, sum.Evaluations, sum.NFailures, time.Since(t0).Seconds())
	return 0
}

func record(sum *hutil.Summary, prop string, sc *scenario, res runResult, v verdict, idx int) {
	raw, _ := json.Marshal(sc)
	full := 0
	for _, sp := range sc.Sessions {
		sum.Dist("session_" + sp.Kind)
		if sp.Kind == "full" {
			full++
			sum.Dist("order_" + sp.Order)
			sum.Dist("login_" + sc.Sshd[sp.Login].Kind)
		}
	}
	sum.Count(string(raw), full > 0 && v.UserActions > 0 && res.Sync == "sentinel" && res.HarnessKey == "")
	sum.Dist(fmt.Sprintf("sessions_%d", len(sc.Sessions)))
	sum.Dist(fmt.Sprintf("phases_%d", len(sc.Phases)))
	sum.Dist("sync_" + res.Sync)
	if sc.ReaderLevel {
		sum.Dist("reader_level_scenario")
		for _, l := range sc.Sshd {
			n := len(l.text())
			if l.Kind == "unrecognised" {
				sum.Dist("sshd_unrecognised_long_line_with_embedded_login_records")
			}
			switch {
			case n > 131072:
				sum.Dist("sshd_record_longer_than_128k")
			case n > 65536:
				sum.Dist("sshd_record_longer_than_64k")
			case n >= 8192:
				sum.Dist("sshd_record_8k_to_64k")
			case n >= 4095:
				sum.Dist("sshd_record_about_4k_to_8k")
			}
		}
		if last := sc.Phases[len(sc.Phases)-1]; true {
			if len(last.SshdCuts) == 0 && len(last.Sshd) > 65536 {
				sum.Dist("sshd_burst_in_one_write_beyond_pipe_capacity")
			} else if len(last.SshdCuts) == 0 && len(last.Sshd) > 4096 {
				sum.Dist("sshd_burst_in_one_write_beyond_one_page")
			}
			if len(last.AuditCuts) == 0 && len(last.Audit) > 65536 {
				sum.Dist("audit_burst_in_one_write_beyond_pipe_capacity")
			}
		}
		if sc.Restart != nil {
			sum.Dist("writer_restart_mid_record_cut_" + sc.Restart.CutAt)
			sum.Dist("writer_restart_daemon_" + map[bool]string{true: res.Restart, false: "not-reached"}[res.Restart != ""])
		}
	}
	sum.Distribution["total_user_actions_compared_with_library_rendering"] += v.Rendered
	sum.Distribution["total_user_actions_from_records_longer_than_4096_compared"] += v.RenderedLong
	sum.Dist(fmt.Sprintf("gomaxprocs_%d", sc.GoMaxProcs))
	sum.Dist("log_level_" + map[bool]string{true: "default", false: sc.LogLevel}[sc.LogLevel == ""])
	if sc.Big {
		sum.Dist("large_events_scenario")
		sum.Distribution["total_sshd_burst_lines"] += res.Storm
		for _, a := range sc.Audit {
			switch {
			case a.ArgBytes >= 16384:
				sum.Dist("execve_arguments_16k_to_70k")
			case a.ArgBytes > 4096:
				sum.Dist("execve_arguments_4k_to_16k")
			case a.ArgBytes > 0:
				sum.Dist("execve_arguments_about_4k")
			}
		}
		for _, l := range sc.Sshd {
			if len(l.Msg) > 4096 {
				sum.Dist("sshd_line_longer_than_4096")
			}
		}
		// how close the two pipelines' writes came: output lines beyond one page whose neighbour was written by the other pipeline
		lines := bytes.Split(res.Output, []byte("\n"))
		comp := func(l []byte) int {
			if bytes.Contains(l, []byte(`"component":"sshd"`)) {
				return 1
			}
			return 2
		}
		for i, l := range lines {
			if len(l) <= 4096 {
				continue
			}
			sum.Distribution["total_output_lines_longer_than_4096"]++
			if (i > 0 && len(lines[i-1]) > 0 && comp(lines[i-1]) != comp(l)) || (i+1 < len(lines) && len(lines[i+1]) > 0 && comp(lines[i+1]) != comp(l)) {
				sum.Distribution["total_output_lines_longer_than_4096_next_to_a_line_of_the_other_pipeline"]++
			}
		}
	}
	for _, l := range sc.Sshd {
		if h := l.Hostile; h != nil {
			sum.Dist("hostile_text_lines")
			sum.Dist("hostile_field_" + h.Field + "_in_" + l.Kind)
			sum.Dist("hostile_embedded_" + h.Forged)
			sum.Dist("hostile_decoration_" + h.Decoration)
			sum.Dist("hostile_position_" + h.Position)
			if h.Target < len(sc.Sessions) {
				sum.Dist("hostile_target_session_" + sc.Sessions[h.Target].Kind)
			}
		}
	}
	ws := sc.writeStats()
	sum.Distribution["total_writes"] += ws.writes
	sum.Distribution["total_writes_ending_mid_record"] += ws.split
	sum.Distribution["total_writes_with_several_records"] += ws.multi
	sum.Distribution["total_sshd_lines"] += len(sc.Sshd)
	sum.Distribution["total_audit_events"] += len(sc.Audit)
	for _, a := range sc.Audit {
		sum.Distribution["total_audit_lines"] += a.NLines
	}
	sum.Distribution["total_user_actions_expected_min"] += v.Expected
	sum.Distribution["total_user_actions_written"] += v.UserActions
	sum.Distribution["total_user_logins_written"] += v.UserLogins
	sum.Distribution["total_run_ms"] += int(res.Millis)
	for _, p := range sc.Phases {
		if p.GapUs == 0 {
			sum.Dist("phase_burst")
		} else {
			sum.Dist("phase_paced")
		}
	}
	replayDoc := map[string]any{"scenario": sc}
	if res.HarnessKey != "" {
		sum.Dist("outcome_harness-problem")
		sum.FailKey("harness", res.HarnessKey, res.HarnessErr, replayDoc)
		// a partial output is still judged below: what was written must be right
	}
	bad := false
	seen := map[string]bool{}
	for _, p := range v.Problems {
		if !selected(prop, p.Key) {
			continue
		}
		if res.HarnessKey != "" && (p.Key == "e2e:once-in-order" || p.Key == "e2e:framing") {
			continue // completeness oracles need a complete run
		}
		bad = true
		if seen[p.Key] {
			continue // one report per key and scenario
		}
		seen[p.Key] = true
		sum.FailKey("oracle", p.Key, p.Text, replayDoc)
	}
	if bad {
		sum.Dist("outcome_violation")
	} else if res.HarnessKey == "" {
		sum.Dist("outcome_ok")
	}
	if idx < 2 {
		sum.Sample(map[string]any{"sessions": sc.Sessions, "sshd_lines": len(sc.Sshd), "audit_events": len(sc.Audit), "phases": len(sc.Phases),
			"output_lines": v.Lines, "user_logins": v.UserLogins, "user_actions": v.UserActions, "sync": res.Sync, "ms": res.Millis})
	}
}

func doReplay(path, prop, bin, tmp string) int {
	raw, err := os.ReadFile(path)
	if err != nil {
		fmt.Println("cannot read replay:", err)
		return 2
	}
	// accepted shapes: {"scenario": ..}, {"replay": {"scenario": ..}}, {"replay": {"replay": {"scenario": ..}}}
	var sc *scenario
	cur := raw
	for i := 0; i < 3 && sc == nil; i++ {
		var probe map[string]json.RawMessage
		if json.Unmarshal(cur, &probe) != nil {
			break
		}
		if s, ok := probe["scenario"]; ok {
			sc = &scenario{}
			if err := json.Unmarshal(s, sc); err != nil {
				fmt.Println("cannot decode the scenario:", err)
				return 2
			}
			break
		}
		cur = probe["replay"]
	}
	if sc == nil || len(sc.Phases) == 0 {
		fmt.Println("replay file carries no scenario")
		return 2
	}
	for _, sp := range sc.Sessions {
		if sp.Kind == "full" && (sp.Login < 0 || sp.Login >= len(sc.Sshd)) {
			fmt.Println("replay scenario is inconsistent: full session without login")
			return 2
		}
		for _, ai := range sp.Audit {
			if ai < 0 || ai >= len(sc.Audit) {
				fmt.Println("replay scenario is inconsistent: audit index out of range")
				return 2
			}
		}
	}
	harnessTrouble := false
	// a failure of the assembled binary may be a race between its goroutines: the scenario fixes the input
	// and its timing, not the scheduler, so it is run up to 30 times
	const tries = 30
	for i := 0; i < tries; i++ {
		res := runScenario(bin, filepath.Join(tmp, fmt.Sprintf("replay%d", i)), sc)
		v := judge(sc, res.Output, res.Storm, res.Survived)
		if res.HarnessKey != "" {
			harnessTrouble = true
			fmt.Printf("run %d: %s: %s\n", i+1, res.HarnessKey, res.HarnessErr)
		}
		for _, p := range v.Problems {
			if !selected(prop, p.Key) {
				continue
			}
			if res.HarnessKey != "" && (p.Key == "e2e:once-in-order" || p.Key == "e2e:framing") {
				continue
			}
			fmt.Printf("REPRODUCED %s (run %d of %d): %s\n", p.Key, i+1, tries, p.Text)
			return 1
		}
	}
	if harnessTrouble {
		fmt.Println("not reproduced, but the daemon could not be run cleanly")
		return 2
	}
	fmt.Printf("not reproduced in %d runs: the scenario meets the selected oracles\n", tries)
	return 0
}
