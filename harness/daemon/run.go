//go:build verif

package main

import (
	"io"
	"strings"
	"bytes"
	"errors"
	"fmt"
	"os"
	"os/exec"
	"path/filepath"
	"syscall"
	"time"
)

const (
	openBound    = 10 * time.Second // the daemon must have opened a pipe for reading by then
	feedBound    = 10 * time.Second // one phase must have been written by then (the daemon reads the pipes)
	collectBound = 5 * time.Second  // wait for the output to be complete
	exitBound    = 5 * time.Second  // exit after SIGTERM
	pollEvery    = 2 * time.Millisecond
	settleQuiet  = 25 * time.Millisecond  // between phases: output unchanged for this long ...
	settleBound  = 400 * time.Millisecond // ... but never wait longer than this
	finalQuiet   = 30 * time.Millisecond
	giveUpQuiet  = 1500 * time.Millisecond // sentinel not seen and the output unchanged for this long: stop waiting
	nodeName     = "verif-node"
	stormMax     = 40000           // burst lines per scenario at most
	stormBound   = 3 * time.Second // ... and no longer than this
	restartGrace = 5 * time.Second // writer-restart episode: a daemon that still holds the sshd pipe open this long after its writer closed is taken to go on
)

func repoDir() string {
	if v := os.Getenv("VERIF_REPO"); v != "" {
		return v
	}
	return "/repo"
}

// buildDaemon builds the real binary from the working tree (no verif tag, no overlay).
func buildDaemon(tmp string) (string, error) {
	bin := filepath.Join(tmp, "audito-maldito")
	cmd := exec.Command("go", "build", "-o", bin, ".")
	cmd.Dir = repoDir()
	cmd.Env = append(os.Environ(), "GOFLAGS=-mod=mod", "GOPROXY=off", "GOSUMDB=off", "GOTOOLCHAIN=local")
	out, err := cmd.CombinedOutput()
	if err != nil {
		return "", fmt.Errorf("go build in %s: %v\n%s", cmd.Dir, err, out)
	}
	return bin, nil
}

type runResult struct {
	Output     []byte
	HarnessKey string // non-empty: the run is not usable (or the daemon misbehaved outside the oracles' scope)
	HarnessErr string
	Storm      int    // lines of the sshd burst written (large-event scenarios)
	Sync       string // how completeness of the output was established: sentinel | quiescence | bound
	Millis     int64
	// writer-restart episode (reader.go): "" = none, "ended" = the daemon ended when the writer of the sshd pipe closed (a legitimate
	// end of the scenario), "survived" = it was still there and a new writer's records were processed up to the second sentinel
	Restart  string
	Survived bool
}

// runScenario starts one daemon process on two fresh FIFOs, feeds the scenario, collects the output file.
func runScenario(bin, dir string, sc *scenario) (res runResult) {
	t0 := time.Now()
	defer func() { res.Millis = time.Since(t0).Milliseconds() }()
	fail := func(key, msg string) runResult {
		res.HarnessKey, res.HarnessErr = key, msg
		return res
	}
	if err := os.MkdirAll(dir, 0o755); err != nil {
		return fail("harness:set-up", err.Error())
	}
	defer os.RemoveAll(dir)
	sshdPath := filepath.Join(dir, "sshd-pipe")
	auditPath := filepath.Join(dir, "audit-pipe")
	outPath := filepath.Join(dir, "events.log")
	stderrPath := filepath.Join(dir, "stderr.log")
	if err := errors.Join(syscall.Mkfifo(sshdPath, 0o600), syscall.Mkfifo(auditPath, 0o600), os.WriteFile(outPath, prefillBytes(sc.Prefill), 0o600)); err != nil {
		return fail("harness:set-up", err.Error())
	}
	stderrF, err := os.Create(stderrPath)
	if err != nil {
		return fail("harness:set-up", err.Error())
	}
	defer stderrF.Close()
	args := []string{"-sshd-pipe-path", sshdPath, "-auditd-pipe-path", auditPath, "-app-events-output", outPath}
	if sc.LogLevel != "" {
		args = append(args, "-log-level", sc.LogLevel)
	}
	cmd := exec.Command(bin, args...)
	cmd.Env = append(os.Environ(), "NODE_NAME="+nodeName)
	if sc.GoMaxProcs > 0 {
		cmd.Env = append(cmd.Env, fmt.Sprint("GOMAXPROCS=", sc.GoMaxProcs))
	}
	cmd.Stdout = stderrF
	cmd.Stderr = stderrF
	cmd.Dir = dir
	if err := cmd.Start(); err != nil {
		return fail("harness:start", err.Error())
	}
	exited := make(chan error, 1)
	go func() { exited <- cmd.Wait() }()
	hasExited := false
	var sshdW, auditW *os.File
	defer func() { // always: kill leftovers, close our pipe ends
		if !hasExited {
			_ = cmd.Process.Kill()
			<-exited
		}
		if sshdW != nil {
			sshdW.Close()
		}
		if auditW != nil {
			auditW.Close()
		}
	}()
	tail := func() string {
		b, _ := os.ReadFile(stderrPath)
		if len(b) > 800 {
			b = b[len(b)-800:]
		}
		return string(b)
	}
	died := func() bool {
		if hasExited {
			return true
		}
		select {
		case <-exited:
			hasExited = true
			return true
		default:
			return false
		}
	}
	readOut := func() []byte {
		b, _ := os.ReadFile(outPath)
		return b
	}

	// opening a FIFO for writing returns once the daemon has opened it for reading: the start-up synchronisation
	openW := func(p string) (*os.File, error) {
		type r struct {
			f   *os.File
			err error
		}
		ch := make(chan r, 1)
		go func() {
			f, err := os.OpenFile(p, os.O_WRONLY, 0)
			ch <- r{f, err}
		}()
		release := func() { // unblock our own open(O_WRONLY) on a FIFO nobody reads
			if rf, err := os.OpenFile(p, os.O_RDONLY|syscall.O_NONBLOCK, 0); err == nil {
				if x := <-ch; x.f != nil {
					x.f.Close()
				}
				rf.Close()
			}
		}
		select {
		case x := <-ch:
			return x.f, x.err
		case <-exited:
			hasExited = true
			release()
			return nil, fmt.Errorf("daemon exited before opening %s", filepath.Base(p))
		case <-time.After(openBound):
			release()
			return nil, fmt.Errorf("daemon did not open %s within %v", filepath.Base(p), openBound)
		}
	}
	if sshdW, err = openW(sshdPath); err != nil {
		return fail("harness:daemon-start", err.Error()+" | stderr: "+tail())
	}
	if auditW, err = openW(auditPath); err != nil {
		return fail("harness:daemon-start", err.Error()+" | stderr: "+tail())
	}

	// waitQuiet polls until the output has not changed for quiet (true) or bound has passed (false)
	waitQuiet := func(quiet, bound time.Duration) bool {
		deadline := time.Now().Add(bound)
		last := -1
		lastChange := time.Now()
		for time.Now().Before(deadline) {
			n := 0
			if st, err := os.Stat(outPath); err == nil {
				n = int(st.Size())
			}
			if n != last {
				last, lastChange = n, time.Now()
			} else if time.Since(lastChange) >= quiet {
				return true
			}
			time.Sleep(pollEvery)
		}
		return false
	}

	writeAll := func(w *os.File, cs []string, gap time.Duration) error {
		for i, c := range cs {
			if i > 0 && gap > 0 {
				time.Sleep(gap) // pacing of the scenario, not synchronisation
			}
			if _, err := w.WriteString(c); err != nil {
				return err
			}
		}
		return nil
	}

	for pi, p := range sc.Phases {
		errs := make(chan error, 2)
		gap := time.Duration(p.GapUs) * time.Microsecond
		sc1, sc2 := chunks(p.Sshd, p.SshdCuts), chunks(p.Audit, p.AuditCuts)
		if sc.Big && sc.StormBatch > 0 {
			// the burst: failure lines after every write of the scenario's own text, then for as long as the large
			// events are still being written (the sshd pipeline then writes all through the audit pipeline's work)
			want := sc.mandatoryActions()
			tc := &tailCounter{path: outPath, mark: []byte(`"type":"UserAction"`)}
			go func() {
				batch := func() error {
					var sb strings.Builder
					for k := 0; k < sc.StormBatch; k++ {
						sb.WriteString(stormItem(res.Storm + k).text())
					}
					_, err := sshdW.WriteString(sb.String())
					if err == nil {
						res.Storm += sc.StormBatch
					}
					return err
				}
				for _, c := range sc1 {
					if _, err := sshdW.WriteString(c); err != nil {
						errs <- err
						return
					}
					if !strings.HasSuffix(c, "\n") {
						continue // mid-record: the burst lines go between records
					}
					if err := batch(); err != nil {
						errs <- err
						return
					}
				}
				for deadline := time.Now().Add(stormBound); res.Storm < stormMax && time.Now().Before(deadline); {
					if tc.poll() >= want {
						break
					}
					if err := batch(); err != nil {
						errs <- err
						return
					}
				}
				errs <- nil
			}()
		} else {
			go func() { errs <- writeAll(sshdW, sc1, gap) }()
		}
		go func() { errs <- writeAll(auditW, sc2, gap) }()
		timeout := time.After(feedBound)
		var werr error
		timedOut := false
		for k := 0; k < 2; k++ {
			select {
			case err := <-errs:
				if err != nil && werr == nil {
					werr = err
					if !hasExited { // EPIPE: the daemon has closed its end; make sure the other writer is released too
						_ = cmd.Process.Kill()
						<-exited
						hasExited = true
					}
				}
			case <-timeout:
				timedOut = true
				if !hasExited {
					_ = cmd.Process.Kill() // unblocks the writers (EPIPE)
					<-exited
					hasExited = true
				}
				k-- // keep waiting for the writer
				timeout = nil
			}
		}
		if timedOut {
			return fail("harness:daemon-stalled", fmt.Sprintf("phase %d could not be written within %v: the daemon does not drain its pipes | stderr: %s", pi, feedBound, tail()))
		}
		if werr != nil {
			return fail("harness:daemon-died", fmt.Sprintf("writing phase %d failed (%v): the daemon stopped reading | stderr: %s", pi, werr, tail()))
		}
		if died() {
			return fail("harness:daemon-died", fmt.Sprintf("the daemon exited while phase %d was fed | stderr: %s", pi, tail()))
		}
		if p.Settle && pi+1 < len(sc.Phases) {
			waitQuiet(settleQuiet, settleBound)
		}
	}

	// Completeness: both pipelines are sequential, so once the sentinel session (written last on both
	// pipes) has produced its UserAction, everything written before it has been dealt with.
	sentLogin := fmt.Sprintf("%d Accepted password for %s from 192.0.2.1 port 22 ssh2\n", sentinelPID, sentinelUser)
	sentAudit := fmt.Sprintf("type=LOGIN msg=audit(1699999999.999:999): pid=%d uid=0 old-auid=4294967295 auid=1000 tty=(none) old-ses=4294967295 ses=%d res=1\n", sentinelPID, sentinelSes)
	loginMark := []byte(`"loggedAs":"` + sentinelUser + `"`)
	actionMark := []byte(fmt.Sprintf(`"auditId":"%d"`, sentinelSes))
	waitMark := func(mark []byte) string {
		deadline := time.Now().Add(collectBound)
		last, lastChange := -1, time.Now()
		for time.Now().Before(deadline) {
			b := readOut()
			if bytes.Contains(b, mark) {
				return "sentinel"
			}
			if len(b) != last {
				last, lastChange = len(b), time.Now()
			} else if time.Since(lastChange) >= giveUpQuiet {
				return "quiescence"
			}
			if died() {
				return "died"
			}
			time.Sleep(pollEvery)
		}
		return "bound"
	}
	res.Sync = "sentinel"
	if _, err := sshdW.WriteString(sentLogin); err != nil {
		return fail("harness:daemon-died", "writing the sentinel login failed: "+err.Error()+" | stderr: "+tail())
	}
	if how := waitMark(loginMark); how != "sentinel" {
		res.Sync = how
	}
	if res.Sync != "died" {
		if _, err := auditW.WriteString(sentAudit); err != nil {
			return fail("harness:daemon-died", "writing the sentinel LOGIN record failed: "+err.Error()+" | stderr: "+tail())
		}
		if how := waitMark(actionMark); how != "sentinel" {
			res.Sync = how
		}
	}
	if res.Sync == "died" || died() {
		res.Output = readOut()
		return fail("harness:daemon-died", "the daemon exited on its own after the history was fed | stderr: "+tail())
	}
	waitQuiet(finalQuiet, collectBound)

	// ---- the writer of the sshd pipe goes away in the middle of a record (reader.go)
	if rp := sc.Restart; rp != nil {
		ended := func() runResult {
			res.Restart = "ended"
			res.Output = readOut()
			return res
		}
		if _, err := sshdW.WriteString(rp.Partial); err != nil {
			return fail("harness:daemon-died", "writing the unterminated record failed: "+err.Error()+" | stderr: "+tail())
		}
		sshdW.Close()
		sshdW = nil
		// a daemon that takes end-of-stream as a failure ends now: it closes its end of the pipe (observed: a non-blocking
		// open for writing finds no reader, ENXIO) and exits.  How long that takes is not judged here (C08 does); only a
		// daemon that still holds the pipe open after restartGrace is treated as one that goes on, and gets the next writer.
		// (A probe that succeeds is a writer for a moment; closing it re-establishes the hang-up for a reader that had not
		// looked yet.)
		readerGone := false
		for deadline := time.Now().Add(restartGrace); time.Now().Before(deadline) && !readerGone; {
			select {
			case <-exited:
				hasExited = true
				return ended()
			case <-time.After(5 * time.Millisecond):
			}
			pf, perr := os.OpenFile(sshdPath, os.O_WRONLY|syscall.O_NONBLOCK, 0)
			if perr == nil {
				pf.Close()
			} else if errors.Is(perr, syscall.ENXIO) {
				readerGone = true
			}
		}
		if readerGone {
			// on its way out; if it is still there after the bound, the ordinary end of a scenario follows (SIGTERM, exit within the bound)
			select {
			case <-exited:
				hasExited = true
				return ended()
			case <-time.After(exitBound):
			}
			res.Restart = "reader-closed"
		} else {
			w2, err := openW(sshdPath)
			if err != nil {
				if hasExited || died() {
					return ended()
				}
				res.Output = readOut()
				return fail("harness:daemon-stalled", "after the writer of the sshd pipe had closed in mid-record the daemon neither ended nor let a new writer open the pipe: "+err.Error()+" | stderr: "+tail())
			}
			sshdW = w2
			sent2Login := fmt.Sprintf("%d Accepted password for %s from 192.0.2.2 port 22 ssh2\n", sentinel2PID, sentinel2User)
			sent2Audit := fmt.Sprintf("type=LOGIN msg=audit(1699999999.998:998): pid=%d uid=0 old-auid=4294967295 auid=1000 tty=(none) old-ses=4294967295 ses=%d res=1\n", sentinel2PID, sentinel2Ses)
			if _, err := sshdW.WriteString(rp.After + sent2Login); err != nil {
				if died() {
					return ended()
				}
				select { // EPIPE: the reader is gone, the daemon is on its way out
				case <-exited:
					hasExited = true
					return ended()
				case <-time.After(exitBound):
				}
				res.Output = readOut()
				return fail("harness:daemon-stalled", "the new writer of the sshd pipe could not write ("+err.Error()+") and the daemon did not end | stderr: "+tail())
			}
			how := waitMark([]byte(`"loggedAs":"` + sentinel2User + `"`))
			if how == "sentinel" {
				if _, err := auditW.WriteString(sent2Audit); err == nil {
					how = waitMark([]byte(fmt.Sprintf(`"auditId":"%d"`, sentinel2Ses)))
				} else {
					how = "died"
				}
			}
			if how == "died" || died() {
				return ended()
			}
			res.Restart, res.Survived = "survived", true
			if how != "sentinel" {
				// alive, but what the new writer wrote was not processed: neither of the two behaviours
				res.Sync = how
				res.Output = readOut()
				_ = cmd.Process.Kill()
				<-exited
				hasExited = true
				return fail("harness:daemon-stalled", "after the writer of the sshd pipe had closed in mid-record the daemon kept running but did not process what the next writer wrote (second sentinel not seen: "+how+") | stderr: "+tail())
			}
			waitQuiet(finalQuiet, collectBound)
		}
	}

	// both writers are still open (EOF on a pipe is a failure for the daemon by design): SIGTERM, wait, read
	_ = cmd.Process.Signal(syscall.SIGTERM)
	select {
	case <-exited:
		hasExited = true
	case <-time.After(exitBound):
		res.Output = readOut()
		return fail("harness:no-exit-after-sigterm", fmt.Sprintf("the daemon was still running %v after SIGTERM | stderr: %s", exitBound, tail()))
	}
	res.Output = readOut()
	return res
}

// tailCounter counts the occurrences of mark in a growing file, reading only what was added since the last poll.
type tailCounter struct {
	path  string
	mark  []byte
	off   int64
	carry []byte
	n     int
}

func (t *tailCounter) poll() int {
	f, err := os.Open(t.path)
	if err != nil {
		return t.n
	}
	defer f.Close()
	if _, err := f.Seek(t.off, 0); err != nil {
		return t.n
	}
	b, _ := io.ReadAll(f)
	if len(b) == 0 {
		return t.n
	}
	t.off += int64(len(b))
	data := append(t.carry, b...)
	t.n += bytes.Count(data, t.mark)
	keep := len(t.mark) - 1
	if keep > len(data) {
		keep = len(data)
	}
	t.carry = append([]byte(nil), data[len(data)-keep:]...)
	return t.n
}
