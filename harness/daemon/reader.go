//go:build verif

package main

import (
	"fmt"
	"strings"

	"github.com/metal-toolbox/audito-maldito/internal/verifharness/hutil"
)

// READER-LEVEL input classes (round 7).  Between the pipes and the processors sits one reader
// (NamedPipeIngester.Ingest + the two Process callbacks); whatever it does to the byte stream - cutting,
// truncating, dropping, re-using a buffer, surviving a writer that went away in mid-record - reaches every
// property that is stated about what the daemon emits for what arrives on its pipes.  A reader-level scenario
// is an ordinary scenario plus one further phase (written after everything else, before the sentinel) with
//
//   - LONG records on both pipes: total length (newline included) just beyond / exactly at / just below 4 KiB,
//     8 KiB, 64 KiB and 128 KiB.  sshd pipe: unrecognised lines that must produce nothing and whose body is, from
//     the first 128-byte boundary of the record on, a sequence of 128-byte units each reading
//     "<pid of another session> Accepted password|publickey for <other account> from <addr> port <port> ssh2 ..." -
//     a reader that hands ANY tail of the record starting at a multiple of 128 bytes (every power-of-two buffer
//     size from 128 bytes up) to the processor as a record of its own fabricates a login; and certificate logins
//     whose key id has that length (the whole key id must arrive as userID).  audit pipe: a session of its own whose
//     EXECVE records are 4-9 KiB long (the kernel's limit per record is about 7.5 KiB of arguments, auditd's 8970
//     bytes) and whose PATH records carry an executable path of 4-9 KiB, rendered by C14's oracle (render.go);
//   - BURSTS: some hundred short records in ONE write(2) on either pipe (more than a page, in every second
//     scenario more than the pipe's 64 KiB capacity), so that the reader finds more than one buffer's worth
//     queued and its reads end in mid-record;
//   - a pipe WRITER THAT GOES AWAY IN MID-RECORD (restartPlan, run.go): after the sentinel the sshd writer writes
//     an unterminated accepted-login record of sshd process A and closes; a daemon that takes the end of its input
//     as a failure exits - a legitimate end, the oracles apply to what was written before; a daemon that is still
//     there gets a NEW writer which writes the complete login of another process B and then A's own, complete
//     login: the events must be exactly those of the two complete records, and the audit session that A's LOGIN
//     record opened must carry A's identity (C01) - bytes of a writer that closed without terminating them are
//     not a record and must not become part of the next writer's first record.

// restartPlan: see above.  Session is the index of process A's session plan (kind "restart").
type restartPlan struct {
	Partial string `json:"partial"` // unterminated bytes the first writer leaves behind
	After   string `json:"after"`   // what the new writer writes (complete records)
	Session int    `json:"session"`
	CutAt   string `json:"cut_at"` // statistics: where in A's record the first writer stopped
}

var unrecognisedHeads = []string{
	"Connection closed by authenticating user",
	"Disconnected from user",
	"error: kex_exchange_identification: banner line contains invalid characters",
	"pam_unix(sshd:session): session opened for user",
	"Received disconnect from",
	"Starting session: shell on pts/0 for",
	"error: Received disconnect from",
	"Connection reset by",
}

const forgedUnit = 128

// forgedUnitText: one unit of exactly forgedUnit bytes that reads as a complete accepted-login record of pid.
func forgedUnitText(r *hutil.Rand, pid int, user string) string {
	if len(user) > 12 {
		user = "acct" + fmt.Sprint(r.Intn(1000))
	}
	addr := fmt.Sprintf("10.%d.%d.%d", r.Intn(256), r.Intn(256), 1+r.Intn(254))
	var u string
	if r.Bool() {
		u = fmt.Sprintf("%d Accepted password for %s from %s port %d ssh2", pid, user, addr, 1+r.Intn(65535))
	} else {
		u = fmt.Sprintf("%d Accepted publickey for %s from %s port %d ssh2: %s %s", pid, user, addr, 1+r.Intn(65535), hutil.Pick(r, keyTypes[:3]), genFP(r))
	}
	if len(u) >= forgedUnit {
		u = fmt.Sprintf("%d Accepted password for %s from %s port %d ssh2", pid, "root", addr, 22)
	}
	return u + strings.Repeat(" ", forgedUnit-len(u))
}

// recordLengths: total record lengths (newline included) around the sizes a reader's buffer is likely to have.
func genRecordLength(r *hutil.Rand, budget *int) int {
	base := []int{4096, 4096, 8192, 65536, 65536, 131072}[r.Intn(6)]
	if base > *budget {
		base = 4096
	}
	n := base
	switch r.Intn(5) {
	case 0:
		n = base + []int{-1, 0, 1, 2}[r.Intn(4)]
	case 1:
		n = base + 1 + r.Intn(64)
	default:
		n = base + 1 + r.Intn(base/4)
	}
	*budget -= n
	return n
}

// genLongUnrecognised: an sshd record of exactly total bytes (newline included) that no handler recognises.
func genLongUnrecognised(r *hutil.Rand, pid, total, targetPID int, forgedUser string, aligned bool) sshdItem {
	it := sshdItem{Kind: "unrecognised", PID: pid, User: forgedUser, Session: -1}
	head := fmt.Sprintf("%s %s", hutil.Pick(r, unrecognisedHeads), genName(r))
	prefix := fmt.Sprintf("%d ", pid)
	var sb strings.Builder
	sb.WriteString(head)
	if aligned {
		// the first unit begins at a multiple of forgedUnit bytes counted from the record's first byte
		for (len(prefix)+sb.Len()+1)%forgedUnit != 0 {
			sb.WriteByte(' ')
		}
	}
	sb.WriteByte(' ')
	// whole units only (a tail of the record must read as a complete message); what is left is one word of dots
	for len(prefix)+sb.Len()+1+forgedUnit <= total {
		sb.WriteString(forgedUnitText(r, targetPID, forgedUser))
	}
	for len(prefix)+sb.Len()+1 < total {
		sb.WriteByte('.')
	}
	msg := sb.String()
	if want := total - 1 - len(prefix); want > len(head)+2 && want < len(msg) {
		msg = msg[:want]
	}
	if strings.HasSuffix(msg, " ") { // padding after the PID is ignored, trailing blanks are the message's own
		msg = msg[:len(msg)-1] + "."
	}
	it.Msg = msg
	return it
}

// addReaderLevel appends the reader-level phase (and, sometimes, the writer-restart plan) to a generated scenario.
func addReaderLevel(r *hutil.Rand, sc *scenario) {
	sc.ReaderLevel = true
	usedPID := map[int]bool{}
	usedSes := map[int]bool{}
	var users []string
	for _, sp := range sc.Sessions {
		usedPID[sp.PID], usedSes[sp.Ses] = true, true
	}
	for _, s := range sc.Sshd {
		usedPID[s.PID] = true
		if s.accepted() {
			users = append(users, s.User)
		}
	}
	newPID := func() int {
		for {
			p := []int{700, 7000, 70000, 2100000}[r.Intn(4)] + r.Intn(2500)
			if !usedPID[p] {
				usedPID[p] = true
				return p
			}
		}
	}
	newSes := func() int {
		for {
			s := []int{100, 700, 9000}[r.Intn(3)] + r.Intn(90)
			if !usedSes[s] {
				usedSes[s] = true
				return s
			}
		}
	}
	// audit stamps continue after the scenario's last one
	ts, seqNo := int64(1700000000000), 1000
	for _, a := range sc.Audit {
		if a.TSms > ts {
			ts = a.TSms
		}
		if a.Seq > seqNo {
			seqNo = a.Seq
		}
	}
	var sshdText, auditText strings.Builder
	addSshd := func(it sshdItem) int {
		sc.Sshd = append(sc.Sshd, it)
		sshdText.WriteString(it.text())
		return len(sc.Sshd) - 1
	}
	addAudit := func(a auditItem, acct string) {
		ts += int64(1 + r.Intn(40))
		seqNo++
		a.TSms, a.Seq = ts, seqNo
		auditText.WriteString(renderAudit(r, &a, acct))
		sc.Audit = append(sc.Audit, a)
		if a.Session >= 0 {
			sc.Sessions[a.Session].Audit = append(sc.Sessions[a.Session].Audit, len(sc.Audit)-1)
		}
	}
	budget := 420000 // bytes of long records per scenario

	// ---- a session of its own with EXECVE records of 4-9 KiB (and one or two far beyond: 20-70 KiB)
	{
		user := genName(r)
		sp := sessionPlan{Kind: "full", PID: newPID(), Ses: newSes(), Login: -1, Order: "login-before-LOGIN-record/racing"}
		si := len(sc.Sessions)
		sc.Sessions = append(sc.Sessions, sp)
		login := genSshd(r, hutil.Pick(r, []string{"accepted_password", "accepted_key", "accepted_cert"}), sp.PID, si, user)
		sc.Sessions[si].Login = addSshd(login)
		addAudit(auditItem{Role: "login", Type: "LOGIN", PID: sp.PID, Ses: fmt.Sprint(sp.Ses), Session: si}, user)
		for k := 2 + r.Intn(5); k > 0; k-- {
			a := auditItem{Role: "event", Type: "EXECVE", PID: sp.PID, Ses: fmt.Sprint(sp.Ses), Session: si}
			switch r.Intn(6) {
			case 0:
				a.ArgBytes = 3900 + r.Intn(400) // the record's length around one page
			case 1:
				a.ArgBytes = 20000 + r.Intn(50000)
			default:
				a.ArgBytes = 4100 + r.Intn(4800)
			}
			if a.ArgBytes > budget {
				a.ArgBytes = 4100 + r.Intn(1000)
			}
			budget -= a.ArgBytes
			if r.Chance(1, 3) {
				// a PATH record of 4-9 KiB in the same event (the executable's path: the UserAction's object)
				a.PathBytes = 4000 + r.Intn(5000)
				if r.Bool() {
					a.ArgBytes = 0
				}
			}
			addAudit(a, user)
			if r.Chance(1, 3) {
				addAudit(auditItem{Role: "event", Type: hutil.Pick(r, eventTypes), PID: sp.PID, Ses: fmt.Sprint(sp.Ses), Session: si}, user)
			}
		}
		users = append(users, user)
	}

	// ---- long records on the sshd pipe
	target := func() int {
		if len(sc.Sessions) > 0 && r.Chance(3, 4) {
			return sc.Sessions[r.Intn(len(sc.Sessions))].PID
		}
		return newPID()
	}
	// one record well beyond 64 KiB or 128 KiB and one well beyond 4 KiB or 8 KiB in every scenario (whole embedded messages
	// behind every 128-byte boundary), then up to two of the other length classes (at / around the boundary itself)
	for _, base := range []int{[]int{65536, 131072}[r.Intn(2)], []int{4096, 8192}[r.Intn(2)]} {
		n := base + 256 + r.Intn(base/4)
		budget -= n
		addSshd(genLongUnrecognised(r, newPID(), n, target(), otherUser(r, users, len(users)), true))
	}
	for k := r.Intn(3); k > 0; k-- {
		n := genRecordLength(r, &budget)
		addSshd(genLongUnrecognised(r, newPID(), n, target(), otherUser(r, users, len(users)), !r.Chance(1, 4)))
	}
	if r.Chance(2, 3) {
		// a certificate login whose record has such a length: the whole key id is the event's userID
		n := genRecordLength(r, &budget)
		sp := sessionPlan{Kind: "login-only", PID: newPID(), Ses: newSes(), Login: -1}
		si := len(sc.Sessions)
		probe := genSshdCert(r, sp.PID, si, genName(r), "k")
		kl := n - len(probe.text())
		if kl < 16 {
			kl = 16
		}
		kid := genLong(r, kl, kl+1, true)
		it := genSshdCert(r, sp.PID, si, probe.User, kid)
		sc.Sessions = append(sc.Sessions, sp)
		sc.Sessions[si].Login = addSshd(it)
	}

	// ---- bursts: many short records, written in one piece (see the cuts below)
	nBurst := 120 + r.Intn(300)
	if r.Bool() {
		nBurst = 1100 + r.Intn(500) // beyond the pipe's capacity
	}
	for k := 0; k < nBurst; k++ {
		addSshd(genSshd(r, hutil.Pick(r, []string{"failed_password", "invalid_user", "max_attempts"}), newPID(), -1, genName(r)))
	}
	if r.Bool() {
		user := genName(r)
		sp := sessionPlan{Kind: "full", PID: newPID(), Ses: newSes(), Login: -1, Order: "login-before-LOGIN-record/racing"}
		si := len(sc.Sessions)
		sc.Sessions = append(sc.Sessions, sp)
		sc.Sessions[si].Login = addSshd(genSshd(r, "accepted_password", sp.PID, si, user))
		addAudit(auditItem{Role: "login", Type: "LOGIN", PID: sp.PID, Ses: fmt.Sprint(sp.Ses), Session: si}, user)
		for k := 60 + r.Intn(300); k > 0; k-- {
			addAudit(auditItem{Role: "event", Type: hutil.Pick(r, eventTypes), PID: sp.PID, Ses: fmt.Sprint(sp.Ses), Session: si}, user)
		}
	}

	// ---- the writer that goes away in mid-record
	if r.Chance(2, 3) {
		userA, userB := genName(r), otherUser(r, users, len(users))
		spA := sessionPlan{Kind: "restart", PID: newPID(), Ses: newSes(), Login: -1, Order: "login-after-writer-restart"}
		si := len(sc.Sessions)
		sc.Sessions = append(sc.Sessions, spA)
		addAudit(auditItem{Role: "login", Type: "LOGIN", PID: spA.PID, Ses: fmt.Sprint(spA.Ses), Session: si}, userA)
		for k := 1 + r.Intn(3); k > 0; k-- {
			addAudit(auditItem{Role: "event", Type: hutil.Pick(r, eventTypes), PID: spA.PID, Ses: fmt.Sprint(spA.Ses), Session: si}, userA)
		}
		kind := hutil.Pick(r, []string{"accepted_key", "accepted_key", "accepted_password", "accepted_cert"})
		a := genSshd(r, kind, spA.PID, si, userA)
		a.Pad = 0
		b := genSshd(r, hutil.Pick(r, []string{"accepted_key", "accepted_key", "accepted_password"}), newPID(), -1, userB)
		b.Pad = 0
		a.Episode, b.Episode = true, true
		rec := a.text()
		var cut int
		where := ""
		switch r.Intn(4) {
		case 0:
			cut, where = 1+r.Intn(len(rec)-2), "anywhere"
		case 1:
			cut, where = strings.Index(rec, " port ")+3+r.Intn(3), "inside-port"
		default:
			from := strings.Index(rec, " from ") + 6
			cut, where = from+r.Intn(len(rec)-1-from), "after-from"
		}
		sc.Sshd = append(sc.Sshd, b)
		sc.Sshd = append(sc.Sshd, a)
		sc.Sessions[si].Login = len(sc.Sshd) - 1
		sc.Restart = &restartPlan{Partial: rec[:cut], After: b.text() + a.text(), Session: si, CutAt: where}
	}

	pp := phase{Sshd: sshdText.String(), Audit: auditText.String(), Settle: true}
	// one write each (the kernel queues up to the pipe's capacity, the writer blocks for the rest), or pieces of up to a page
	pp.SshdCuts = genCuts(r, len(pp.Sshd), []int{3, 3, 2, 1}[r.Intn(4)])
	pp.AuditCuts = genCuts(r, len(pp.Audit), []int{3, 3, 2}[r.Intn(3)])
	if len(pp.SshdCuts)+len(pp.AuditCuts) > 4000 {
		pp.SshdCuts = nil
	}
	sc.Phases = append(sc.Phases, pp)
}
