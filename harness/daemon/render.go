//go:build verif

package main

import (
	"encoding/json"
	"fmt"
	"reflect"
	"sort"
	"strings"
	"time"

	"github.com/elastic/go-libaudit/v2/aucoalesce"
	"github.com/elastic/go-libaudit/v2/auparse"
)

// C14 on the built daemon (key e2e:render): every UserAction of the events file renders the audit event - the
// record group written to the audit pipe with that timestamp - as the library's own coalesced event for the very
// text the harness wrote says: auditId = its session, outcome 'succeeded' exactly when its result is success,
// metadata.extra = {action, how, object} of its summary plus process_args exactly when it has arguments.  The
// reference is computed here from the scenario's audit text alone (auparse.ParseLogLine per line, the lines of one
// timestamp + sequence number coalesced with aucoalesce.CoalesceMessages - the calls the daemon's callback makes),
// as harness/render does at package level; what differs is the way the records travel: through the real FIFO and
// the daemon's reader.

type refObj struct {
	Type      string `json:"type"`
	Primary   string `json:"primary"`
	Secondary string `json:"secondary"`
}

type auditRef struct {
	Session string
	Result  string
	Action  string
	How     string
	Object  refObj
	Args    []string
	Type    string
	Seq     uint32
	Lines   int
	Longest int
}

// auditRefs: the library's event per timestamp (ms) for the audit text of the scenario.
func auditRefs(sc *scenario) (map[int64]*auditRef, error) {
	var text strings.Builder
	for _, p := range sc.Phases {
		text.WriteString(p.Audit)
	}
	type group struct {
		msgs    []*auparse.AuditMessage
		longest int
	}
	var order []string
	groups := map[string]*group{}
	for _, ln := range strings.Split(text.String(), "\n") {
		if ln == "" {
			continue
		}
		m, err := auparse.ParseLogLine(ln)
		if err != nil {
			return nil, fmt.Errorf("generated audit line does not parse: %v: %q", err, trunc(ln))
		}
		k := fmt.Sprintf("%d:%d", m.Timestamp.UnixMilli(), m.Sequence)
		g := groups[k]
		if g == nil {
			g = &group{}
			groups[k] = g
			order = append(order, k)
		}
		g.msgs = append(g.msgs, m)
		if len(ln)+1 > g.longest {
			g.longest = len(ln) + 1
		}
	}
	out := map[int64]*auditRef{}
	for _, k := range order {
		g := groups[k]
		ev, err := aucoalesce.CoalesceMessages(g.msgs)
		if err != nil {
			return nil, fmt.Errorf("generated record group %s does not coalesce: %v", k, err)
		}
		out[ev.Timestamp.UnixMilli()] = &auditRef{Session: ev.Session, Result: ev.Result, Action: ev.Summary.Action, How: ev.Summary.How,
			Object: refObj{ev.Summary.Object.Type, ev.Summary.Object.Primary, ev.Summary.Object.Secondary},
			Args:   append([]string(nil), ev.Process.Args...), Type: ev.Type.String(), Seq: ev.Sequence, Lines: len(g.msgs), Longest: g.longest}
	}
	return out, nil
}

type renderedAction struct {
	Type      string    `json:"type"`
	Component string    `json:"component"`
	LoggedAt  time.Time `json:"loggedAt"`
	Outcome   string    `json:"outcome"`
	Metadata  struct {
		AuditID string                     `json:"auditId"`
		Extra   map[string]json.RawMessage `json:"extra"`
	} `json:"metadata"`
}

// judgeRender compares the UserActions of the output with the reference; returns the problems (one per event at most).
func judgeRender(sc *scenario, events []*outEvent) (problems []string, compared, longCompared int) {
	refs, err := auditRefs(sc)
	if err != nil {
		return []string{"harness: " + err.Error()}, 0, 0
	}
	for _, ev := range events {
		if ev.Type != "UserAction" || ev.sentinel() {
			continue
		}
		var ra renderedAction
		if err := json.Unmarshal([]byte(ev.raw), &ra); err != nil {
			continue // not-json-line reports it
		}
		at := fmt.Sprintf("output line %d (UserAction, auditId %q, loggedAt %s)", ev.lineNo, ra.Metadata.AuditID, ra.LoggedAt.UTC().Format(time.RFC3339Nano))
		ref := refs[ra.LoggedAt.UnixMilli()]
		if ref == nil {
			problems = append(problems, at+": no record group written to the audit pipe has this timestamp")
			continue
		}
		compared++
		if ref.Longest > 4096 {
			longCompared++
		}
		at += fmt.Sprintf(", rendering the %s event #%d (%d record(s), longest %d bytes)", ref.Type, ref.Seq, ref.Lines, ref.Longest)
		var diffs []string
		if ra.Component != "auditd" {
			diffs = append(diffs, fmt.Sprintf("component %q", ra.Component))
		}
		if ra.Metadata.AuditID != ref.Session {
			diffs = append(diffs, fmt.Sprintf("auditId %q, the event's session is %q", ra.Metadata.AuditID, ref.Session))
		}
		want := "failed"
		if ref.Result == "success" {
			want = "succeeded"
		}
		if ra.Outcome != want {
			diffs = append(diffs, fmt.Sprintf("outcome %q, the audit result is %q", ra.Outcome, ref.Result))
		}
		var keys []string
		for k := range ra.Metadata.Extra {
			keys = append(keys, k)
		}
		sort.Strings(keys)
		wantKeys := []string{"action", "how", "object"}
		if len(ref.Args) > 0 {
			wantKeys = append(wantKeys, "process_args")
		}
		var action, how string
		var obj refObj
		var args []string
		_ = json.Unmarshal(ra.Metadata.Extra["action"], &action)
		_ = json.Unmarshal(ra.Metadata.Extra["how"], &how)
		_ = json.Unmarshal(ra.Metadata.Extra["object"], &obj)
		_, hasArgs := ra.Metadata.Extra["process_args"]
		_ = json.Unmarshal(ra.Metadata.Extra["process_args"], &args)
		switch {
		case hasArgs != (len(ref.Args) > 0):
			diffs = append(diffs, fmt.Sprintf("process_args present=%v, the audit event has %d argument(s) (%d bytes)", hasArgs, len(ref.Args), len(strings.Join(ref.Args, " "))))
		case hasArgs && !reflect.DeepEqual(args, ref.Args):
			diffs = append(diffs, fmt.Sprintf("process_args %s differ from the audit event's %d argument(s) %s", trunc(fmt.Sprintf("%q", args)), len(ref.Args), trunc(fmt.Sprintf("%q", ref.Args))))
		case !reflect.DeepEqual(keys, wantKeys):
			diffs = append(diffs, fmt.Sprintf("metadata.extra has keys %v, expected %v", keys, wantKeys))
		}
		if action != ref.Action || how != ref.How || obj != ref.Object {
			diffs = append(diffs, fmt.Sprintf("action/how/object %q/%q/%+v, the summary of the record group is %q/%q/%+v", action, trunc(how), obj, ref.Action, trunc(ref.How), ref.Object))
		}
		if len(diffs) > 0 {
			problems = append(problems, at+": "+strings.Join(diffs, "; "))
		}
	}
	return problems, compared, longCompared
}
