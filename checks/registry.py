"""One Spec per property: which theorem file, which harness, how much to run per tier."""
from framework import Spec

SPECS = {}


def reg(spec):
    SPECS[spec.pid] = spec


reg(Spec(
    "C18", "Props/C18.v", harness="health",
    args_quick=["-n", "300", "-nc", "150"],
    args_thorough=["-n", "4000", "-nc", "1500"],
    args_search=["-n", "3000", "-nc", "1000"],
    assumptions=[
        "component names are abstracted to numbers; the Go map is an association list without duplicate keys",
        "one GenericSyncMap method call = one critical section (checked: the request's lock trace must be [Len; Iterate])",
        "WaitForReady's select is modelled as the sequence of arms taken; wall-clock polling is observed, not proved",
    ],
    modelled=["internal/health/health.go (AddReadiness, OnReady, IsReady, GetReadyzStatusMap, readyzHandler, WaitForReady)"],
))
