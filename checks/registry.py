"""One Spec per property: which theorem file, which harness, how much to run per tier."""
from framework import Spec

SPECS = {}


def reg(spec):
    SPECS[spec.pid] = spec


reg(Spec(
    "C18", "Props/C18.v", harness="health",
    args_quick=["-n", "300", "-nc", "150"],
    args_thorough=["-n", "4000", "-nc", "1500"],
    args_search=["-n", "3000", "-nc", "1000"],
    assumptions=[
        "component names are abstracted to numbers; the Go map is an association list without duplicate keys",
        "one GenericSyncMap method call = one critical section (checked: the request's lock trace must be [Len; Iterate])",
        "WaitForReady's select is modelled as the sequence of arms taken; wall-clock polling is observed, not proved",
    ],
    modelled=["internal/health/health.go (AddReadiness, OnReady, IsReady, GetReadyzStatusMap, readyzHandler, WaitForReady)"],
))

TRACKER_OVERLAY = {"processors/auditd/sessiontracker/verif_export.go": "harness/overlay/sessiontracker_verif.go"}
TRACKER_ASSUME = [
    "logins and audit events are identified by ids; identity content and rendering are functions of (login, event) (Model/ToEvent.v, C14)",
    "Go's random map iteration order in RemoteLogin's scan is the model's choice argument; a step corresponds if some choice reproduces it",
    "time.Now() inside the correlator is bracketed by the harness' own clock readings (cut-offs always fall between two calls)",
    "theorems are about the writer that never fails; write failures are covered by the model and the per-step correspondence, and by C15",
]
TRACKER_MODELLED = ["processors/auditd/sessiontracker/sessiontracker.go (RemoteLogin, AuditdEvent, both cleanups, writeAndClearCache)"]


def tracker(pid, n_quick=160, n_thorough=3000):
    reg(Spec(
        pid, "Props/%s.v" % pid, harness="tracker", overlay=TRACKER_OVERLAY,
        args_quick=["-prop", pid, "-n", str(n_quick)],
        args_thorough=["-prop", pid, "-n", str(n_thorough)],
        args_search=["-prop", pid, "-n", "1500"],
        assumptions=TRACKER_ASSUME, modelled=TRACKER_MODELLED,
        extra_targets=["Model/TrackerCheck.vo"],
    ))


for _p in ("C01", "C02", "C04", "C09", "C16"):
    tracker(_p)
