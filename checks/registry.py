"""One Spec per property: which theorem file, which harness, how much to run per tier."""
from framework import Spec

SPECS = {}


def reg(spec):
    SPECS[spec.pid] = spec


reg(Spec(
    "C18", "Props/C18.v", harness="health",
    args_quick=["-n", "300", "-nc", "150"],
    args_thorough=["-n", "4000", "-nc", "1500"],
    args_search=["-n", "3000", "-nc", "1000"],
    assumptions=[
        "component names are abstracted to numbers in the model; the Go map is an association list without duplicate keys. The harness draws the NAME of each number per case (harness/health/names.go: plain names, the implementation's own words - verdict key, status words, empty string - and near misses of them, JSON/HTML-significant text, non-ASCII, names up to 70 KiB; valid UTF-8, pairwise distinct) and asks every state several times (Go's map iteration order); a component NAMED like the verdict key has no entry of its own in the body (one JSON object: the verdict is written last) - status code, verdict and IsReady must be those of the history all the same, the body lists the other components (Model/Health.v: obs_matches_sh)",
        "one GenericSyncMap method call = one critical section (checked: the request's lock trace must be [Len; Iterate])",
        "WaitForReady's select is modelled as the sequence of arms taken; wall-clock polling is observed, not proved",
        "overlapping registrations / ready-marks (one paused before each of its lock acquisitions while others run completely): IsReady, a WaitForReady started afterwards (watched 5 ms when it must not complete, 2 s when it must) and /readyz must all be the sequential model's answers for ONE order of the overlapping calls; oracle only, no Coq case files",
        "request histories (harness/health/requests.go; oracle only, no Coq case files): registrations / ready-marks with requests in between against ONE handler - GET, HEAD, POST, OPTIONS, PUT, DELETE, PROPFIND; through httptest.ResponseRecorder, a ResponseWriter whose 1st or 2nd Write fails or is short, a real httptest.Server connection (keep-alive client, raw connection reset after the request) - issued from one goroutine, half of the cases with GOMAXPROCS 1: every completely received GET answer has the status code, verdict and components of the history and a body that is exactly ONE JSON document; for other methods only a 200 / 503 (and a body sent with it) is judged, a failing writer's answer by its status code; answers lost to a transport error are not judged",
        "daemon wiring: C18 is read as a statement about registered component NAMES; 'named-pipe-processor' is registered twice and marked by both pipe ingesters, so readiness needs the audit processor and at least ONE ingester (C18_daemon_ready_needs: an observation, reported, not raised)",
    ],
    modelled=["internal/health/health.go (AddReadiness, OnReady, IsReady, GetReadyzStatusMap, readyzHandler, WaitForReady)",
              "cmd/namedpipe.go + main.go + the workers' entry methods: readiness wiring generated into Gen/DaemonWiring.v (start-up order, marking sets, health object per worker, every AddReadiness/OnReady call site)"],
    extra_targets=["Model/Health.vo"],
))

TRACKER_OVERLAY = {"processors/auditd/sessiontracker/verif_export.go": "harness/overlay/sessiontracker_verif.go"}
TRACKER_ASSUME = [
    "every correlator call (and every state dump) of the sequential, exhaustive and concurrent stages runs under a watchdog: a call that has not returned after 10 s "
    "(VERIF_CALL_BOUND_MS) is reported as an oracle failure with the history / schedule and log level as replay, and the (poisoned) harness process stops exploring",
    "audit events carry generated values in the fields the correlator does not need (kernel serial: zero / increasing / equal / decreasing / wrapping through 2^32 / late "
    "lower-numbered / arbitrary; record timestamps before, around and after the wall clock; old-ses, old-auid, auid, tty, terminal, ppid, exe, addr naming other sessions, "
    "pids and users of the history); the model's event is (id, session, type, pid) and the case-file encoding carries nothing else",
    "logins and audit events are identified by ids; identity content and rendering are functions of (login, event) (Model/ToEvent.v, C14)",
    "Go's random map iteration order in RemoteLogin's scan is the model's choice argument; a step corresponds if some choice reproduces it",
    "time.Now() inside the correlator is bracketed by the harness' own clock readings (cut-offs always fall between two calls)",
    "theorems are about the writer that never fails; write failures are covered by the model and the per-step correspondence, and by C15",
]
VOLUME_ASSUME = ("volume family (oracle only, no Coq cases; harness/tracker/volume.go): histories of thousands to 10^5 operations - a LIFETIME part (rounds of "
                 "cron-like sessions holding events, thrown away by the session sweep; rounds of unclaimed logins thrown away by the login sweep; cumulative counts "
                 "1000 ... 16384 quick, up to 131072 thorough, never more than a few hundred pending at once), a TABLE part (255 ... 4096 quick, up to 16384 thorough: "
                 "logins waiting at the same time, login-less sessions open at the same time, events held by one session; sizes around powers of two and ten, each "
                 "dimension once per run at the tier's largest size), ordinary probe sessions started and completed all along, and an ordinary small history plus the "
                 "other halves of some waiting logins / open sessions at the end; judged by the property's oracle from the history alone, every call under the "
                 "watchdog; the concurrent stages run their last programs on a correlator filled the same way (255 ... 2049 quick, up to 4097 thorough; every schedule of such a program fills the tables anew)")
TRACKER_MODELLED = ["processors/auditd/sessiontracker/sessiontracker.go (RemoteLogin, AuditdEvent, both cleanups, writeAndClearCache)"]


def daemon_extra(pid, n_quick=40, n_thorough=400):
    """End-to-end stage: the BUILT daemon on two real FIFOs, the property's oracle on its output file."""
    return [("daemon", {}, ["-prop", pid, "-n", str(n_thorough)], False, ["-prop", pid, "-n", str(n_quick)])]


DAEMON_ASSUME = ("end-to-end stage: the built binary is fed through two real FIFOs (sshd lines and raw audit records, random timing, "
                 "writes split at arbitrary byte offsets); the property's oracle is evaluated on the events file; completeness is "
                 "established by a sentinel session written last (both pipelines are sequential)")


READER_ASSUME = ("end-to-end stage, reader-level input classes (harness/daemon/reader.go, every fourth scenario): records of 4 KiB / 8 KiB / 64 KiB / 128 KiB "
                 "(at, just around and well beyond the size) on both pipes - unrecognised sshd lines whose body is, behind every 128-byte boundary of the record, a complete "
                 "accepted-login message for another session's sshd PID (nothing must come of them), certificate logins with key ids of that length (the whole key id is the "
                 "event's userID), EXECVE records of 4-9 KiB and some of 20-70 KiB, PATH records whose executable path is 4-9 KiB long (rendered as the library renders the text written: C14's e2e:render); bursts of hundreds of "
                 "records in one write(2), beyond one page and beyond the pipe's capacity; a writer of the sshd pipe that closes in the middle of an accepted-login record: the "
                 "daemon may end (end-of-stream is a failure by design: observed as 'no reader on the FIFO any more' or the process' exit; the oracles then apply to what was written before) or - still holding the pipe open 5 s later - go on with the next writer, whose records - the complete "
                 "login of another process, then the first process' own - must then yield exactly their events and the first process' audit session exactly its identity. Stated, not "
                 "proved: bytes a writer left unterminated when it closed are not a record and not part of the next writer's first record. C06 / C11 on this stage: the six message forms "
                 "of the daemon generator (accepted password / publickey / certificate, failed password, invalid user, maximum attempts), expected fields by construction; a UserLogin that "
                 "no recognised line written yields is reported for both")


def conc_extra(pid, n_quick=5, n_thorough=60):
    """Concurrent stage: forced single-preemption schedules on the real correlator under the race detector,
    judged by the property's own oracle on the final outcome."""
    return [("tracker", TRACKER_OVERLAY, ["-mode", "conc", "-prop", pid, "-n", str(n_thorough), "-cvol", "4", "-volbig"], True,
             ["-mode", "conc", "-prop", pid, "-n", str(n_quick), "-cvol", "1"])]


CONC_ASSUME = ("concurrent stage: the sequential model applies to the daemon because every correlator call is one critical section "
               "(generated lock table, theorem <ID>_calls_atomic; C03 proves linearizability from it); forced single-preemption schedules "
               "at the lock and write hooks check the property's oracle on the real correlator's final outcome")


def exh_extra(pid, len_quick=4, len_thorough=6):
    """Exhaustive small-scope stage: every history up to a length bound over small alphabets (two sessions + a cron-like one,
    the LOGIN record of session 2 also in the variant whose old-ses names session 1; for C09 / C16 also ONE pid logging in
    twice and opening two sessions, cut-offs at the call and one operation earlier) on the real correlator, judged by the
    property's oracle; an evenly spaced subset replayed against the Coq model."""
    return [("tracker", TRACKER_OVERLAY, ["-mode", "exh", "-prop", pid, "-len", str(len_thorough), "-xlen", str(len_thorough), "-coq", "3000"], False,
             ["-mode", "exh", "-prop", pid, "-len", str(len_quick), "-xlen", str(len_quick + 1), "-coq", "300"])]


EXH_ASSUME = ("exhaustive stage: every history of length <= 4 (quick) / 6 (thorough) over {login, LOGIN record, record, disposal record of two "
              "sessions; a cron-like session; both cleanups; the LOGIN record of session 2 in a second variant whose old-ses names session 1} with each "
              "login / LOGIN record at most once, the records' serials all zero / descending / wrapping through 2^32 / all equal in turn; C09 and C16 "
              "also every history of length <= 5 / 6 over ONE sshd pid {its login, a second login of that pid, the records of its session, LOGIN record "
              "and record of a later session opened by the same pid, both cleanups with the cut-off at the call and one operation earlier}, the sessions' "
              "logins derived from the history alone (latest waiting login of a pid wins; a login arriving while two login-less sessions of its pid "
              "are open is not judged); on the real correlator")


def tracker(pid, n_quick=160, n_thorough=3000):
    extra = exh_extra(pid) + ((conc_extra(pid) + daemon_extra(pid)) if pid in ("C01", "C02", "C04") else [])
    reg(Spec(
        pid, "Props/%s.v" % pid, harness="tracker", overlay=TRACKER_OVERLAY,
        args_quick=["-prop", pid, "-n", str(n_quick), "-vol", "10"],
        args_thorough=["-prop", pid, "-n", str(n_thorough), "-vol", "40", "-volbig"],
        args_search=["-prop", pid, "-n", "1500", "-vol", "25", "-volbig"],
        assumptions=TRACKER_ASSUME + [VOLUME_ASSUME, EXH_ASSUME] + ([CONC_ASSUME.replace("<ID>", pid), DAEMON_ASSUME] if len(extra) > 1 else []), modelled=TRACKER_MODELLED,
        extra_targets=["Model/TrackerCheck.vo"], thorough_extra=extra,
    ))


for _p in ("C01", "C02", "C04", "C09", "C16"):
    tracker(_p)

SPECS["C01"].search_extra = [("daemon", {}, ["-prop", "C01", "-n", "160"], False)]
SPECS["C01"].assumptions = SPECS["C01"].assumptions + [
    READER_ASSUME,
    "which sshd PID a login carries is part of C01's obligations: C01_login_pid_is_record_first_column / C01_tracker_login_pid_is_record_first_column / "
    "C01_framed_record_login (Proofs/RecordLogin.v) compose the translations regenerated from SyslogIngester.Process / ParseSyslogMessage (Gen/PureFuncs.v) and "
    "ProcessSshdLogEntry (Gen/EntryMetrics.v) with the sshd model: for every record, a forwarded login carries strconv.Atoi of the record's first column; the "
    "abstraction of a forwarded login to the correlator's login is Model/PipelineSshd.v's abs_login",
    "daemon stage, hostile client-chosen text (harness/daemon/hostile.go): user names of failure lines and key ids of certificate logins that look like an accepted-login "
    "record of another session's sshd process (syslog tags, PID column, timestamp + host prefixes, CR and other would-be record breaks), before / after that session's "
    "LOGIN record and genuine login; key ids stay inside C06's no_ssh_frag domain; the identity oracle is unchanged (a forged name is recorded as a name)",
]

SSHD_ASSUME = [
    "bytes vs runes: every class of the generated regexes contains all or no non-ASCII runes; a single-character item over a class WITH them that is not the head of x+ is the rune item IRune "
    "(one utf8.DecodeRuneInString step; the final `.` of reverseMappingCheckFailedRE / doesNotMapBackToAddrRE), all other items are byte items; go2v refuses (UNSUPPORTED) a pattern that is not "
    "rune-safe (Model/RegexSpec.v rune_safe: a greedy star over such a class is followed by an ASCII literal, an ASCII-only class byte, $ or the pattern's end; matches start at an ASCII literal or ^), "
    "and C06_regex_all_patterns_rune_safe re-checks it of the generated list; that Go's rune-level matching equals the model on rune-safe patterns is assumed and exercised directly (stage prims)",
    "the model's matcher is PROVED sound, complete and priority-correct against a declarative leftmost-first / greedy semantics (C06_regex_*); that Go's regexp returns that match for these flat "
    "patterns is assumed and exercised by the correspondence, per event (stage sshd) and per FindStringSubmatchIndex call (stage prims)",
    "lines longer than 160 bytes are judged by the oracle only (the model's matcher is polynomial, Go's linear)",
    "data values in which json.Marshal replaced invalid UTF-8 are not compared byte for byte",
    "select with both arms ready (C05 only: context cancelled before the line or from inside the event write WHILE the correlator receives) is judged by the oracle alone - at most one login, the written event, nil returned; "
    "such cases are not sent to the model, whose hand-off is either taken (reader ready, ctx live) or cancelled (ctx cancelled, no reader); with a rejected write they are (error returned, nothing forwarded, whatever the context)",
    "ORDER is an input (C17 C05 C11 C19): the model is a function of the line, the harness processes generated cases right after genuine lines of every recognised kind (and after unrecognised ones) on the ONE long-lived processor; "
    "a replay carries the (up to 40) lines processed before the failing one",
]
SSHD_MODELLED = ["processors/sshd handlers (capture-to-field mapping, placeholders, metric calls inside handlers, write + hand-off); regexes and dispatch switch are generated"]


# C05: hand-offs nobody takes for a while, context never cancelled (harness/sshd/slow.go); all scenarios of a stage run
# concurrently, so a stage lasts about as long as its longest wait.  Quick: up to 1.5 s; thorough: up to 31 s; and, in
# any tier, up to 61 s as a search once an obligation broke and no failing input has been found.
def slow_handoff(pid, delays):
    return ["-prop", pid, "-mode", "slow", "-delays", ",".join(str(d) for d in delays)]


SLOW_ASSUME = ("slow hand-off stage (C05; the same stage with their own oracles for C10 and C19): after the event is written nobody receives on the unbuffered logins channel for 0.15-2.5 s (quick), "
               "up to 31 s (thorough) or up to 61 s (search after a broken obligation) while the context stays live; then exactly one login must be there; "
               "real time is observed, not modelled (the model's hand-off is taken or cancelled, never timed)")


# C07: records that reach the real FIFOs (sshd pipe -> syslog ingester -> processor; audit pipe -> audit-log ingester) in
# pieces, the writer pausing INSIDE a record for several magnitudes of time (harness/sshd/stall.go); all cases of a stage
# run concurrently on FIFOs of their own, so a stage lasts about as long as its longest pause.  Quick: up to 1.2 s;
# thorough: up to 11 s; and, in any tier, up to 31 s as a search once an obligation broke and no failing input has been found.
def stalled_writer(pid, pauses, per=3):
    return ["-prop", pid, "-mode", "stall", "-stalls", ",".join(str(d) for d in pauses), "-per", str(per)]


STALL_ASSUME = ("stalled-writer stage (C07): a record written into the real FIFO in two or more pieces with a pause of 0.2 / 0.6 / 1.2 s (quick), up to 11 s "
                "(thorough) or up to 31 s (search after a broken obligation) strictly inside it is processed as the same record handed over directly "
                "(sshd pipe: events and forwarded logins; audit pipe: one pushed line per record, parsing to the bare record's message); real time is an "
                "input of the writer only, the oracle waits for the ingester to return after the writer closed its end")


def sshd(pid, n_quick=360, n_thorough=6000):
    extra = daemon_extra(pid) if pid == "C07" else []
    search_extra = []
    assume = list(SSHD_ASSUME)
    if pid in ("C06", "C11"):
        # round 7: the property's statement is about what the DAEMON emits for the lines on its pipe; the reader between pipe and
        # processor is covered by <ID>_records_reach_processor_unchanged (obligation) and by the daemon stage (failing inputs)
        extra = daemon_extra(pid, 12, 240)
        search_extra = [("daemon", {}, ["-prop", pid, "-n", "120"], False)]
        assume += [DAEMON_ASSUME, READER_ASSUME]
    if pid == "C07":
        extra = extra + [("sshd", {}, stalled_writer(pid, [200, 600, 1200, 2500, 5500, 11000], 4), False, stalled_writer(pid, [200, 600, 1200]))]
        search_extra = [("sshd", {}, stalled_writer(pid, [2500, 5500, 11000, 31000]), False)]
        assume.append(STALL_ASSUME)
    if pid == "C05":
        extra = [("sshd", {}, slow_handoff(pid, [150, 1500, 2500, 6500, 12000, 31000]), False, slow_handoff(pid, [150, 700, 2500]))]
        search_extra = [("sshd", {}, slow_handoff(pid, [1500, 2500, 6500, 12000, 31000, 61000]), False)]
        assume.append(SLOW_ASSUME)
    if pid == "C19":
        # the same stage judged by C19's own oracle: one increment per emitted event while a hand-off is pending
        extra = [("sshd", {}, slow_handoff(pid, [150, 2500, 6500, 12000]), False, slow_handoff(pid, [150, 2500]))]
        search_extra = [("sshd", {}, slow_handoff(pid, [2500, 6500, 12000, 31000]), False)]
        assume.append("slow hand-off stage (harness/sshd -mode slow, shared with C05 / C10): while nobody takes an accepted login for 0.15-2.5 s (quick), up to 12 s (thorough), "
                      "up to 31 s (search) the counter must have moved exactly once per emitted event, under the success outcome; real time is observed, not modelled")
    reg(Spec(
        pid, "Props/%s.v" % pid, harness="sshd",
        args_quick=["-prop", pid, "-n", str(n_quick)],
        args_thorough=["-prop", pid, "-n", str(n_thorough)],
        args_search=["-prop", pid, "-n", "3000"],
        assumptions=assume + ([DAEMON_ASSUME] if pid == "C07" else []), modelled=SSHD_MODELLED,
        extra_targets=["Model/SshdCheck.vo"], thorough_extra=extra, search_extra=search_extra,
    ))


for _p in ("C17", "C11", "C19"):
    sshd(_p)


DIRREADER_OVERLAY = {"processors/auditd/dirreader/verif_export.go": "harness/overlay/dirreader_verif.go"}
reg(Spec(
    "C20", "Props/C20.v", harness="dirreader", overlay=DIRREADER_OVERLAY,
    args_quick=["-n", "200"],
    args_thorough=["-n", "3000"],
    args_search=["-n", "2000"],
    assumptions=[
        "files are byte lists on an in-memory file system behind the package's own fileSystem/fsWatcher seams; each fsnotify event carries one op bit and is processed before the next change (enforced by a barrier event)",
        "no file-system errors (the backoff/retry path is not modelled); truncation is to length 0",
        "events during start-up: the model has none; the harness delivers them (appends to audit.log with their Write events, empty Writes, Chmod, other names; before the first Open, while an older file is read, right when the read of audit.log starts, after some or all of its lines; offered while nobody receives from Lines()) and judges by the oracle: by the first Write event processed after start-up every complete line of the initial files and of what was appended meanwhile has been delivered exactly once, in order; for the model such a case is the directory with those appends already in audit.log",
        "names: audit.log, audit.log.<n> (n unbounded), others filtered; names with a non-decimal suffix and leading-zero duplicates are not modelled",
    ],
    modelled=["processors/auditd/dirreader/dirreader.go (sortLogNamesOldToNew, loopWithError, rotatingFile.read, readFilePathLines, readLines)"],
    extra_targets=["Model/DirReaderCheck.vo"],
))

reg(Spec(
    "C12", "Props/C12.v", harness="pipes",
    args_quick=["-n", "150"], args_thorough=["-n", "2000"], args_search=["-n", "1000"],
    assumptions=[
        "bufio.Reader is inside the model: Model/Bufio.v follows Go 1.23.5 bufio.go statement by statement at array level (buf, r, w, err; NewReaderSize, fill incl. the slide and the 100-empty-reads loop, readErr, Buffered, ReadSlice incl. the search start index, the pending-error and ErrBufferFull branches, collectFragments, ReadString) over a scripted io.Reader (chunks, (0, nil) reads, a final error with or without last bytes); the contract read_string is PROVED of it for every buffer size, state and script without 100 consecutive empty reads (C12_bufio_contract, C12_bufio_contract_total, C12_bufio_independent), the Ingest loop on it IS ingest (C12_bufio_ingest), io.ErrNoProgress is returned exactly for 100 empty reads in a row (C12_bufio_no_progress, _only, _excluded_exactly); the tie to the real package is the bufio stage (both tiers): real bufio.NewReaderSize over a script reader, ReadString call by call (string, error class, Buffered(), reads served) against the model in Coq, plus an oracle from the script alone; summary.json names the Go version and the sha256 of the bufio.go it ran against",
        "left out of the bufio model: lastByte/lastRuneSize (UnreadByte/UnreadRune only), collectFragments' totalLen (sizes the strings.Builder), NewReaderSize's shortcut for an rd that is already a *bufio.Reader, negative read counts; bytes.Clone of a full buffer is the identity on immutable values (that the real code clones is what the stage's records longer than the buffer check); the script's own error value must not be bufio.ErrBufferFull (then the real ReadString loops for ever: C12_bufio_buffer_full_source_diverges); os.File never returns (0, nil) for len(p) > 0, so the no-100-empty-reads hypothesis holds of the daemon's reader",
        "the chunks of the model are the pieces in which bytes arrive at the reader; C12_chunk_independent makes the outcome independent of them, so the writer's partition can stand in for the kernel's/bufio's read partition",
        "the callback's verdict is a function of (call index, record); the identity of its error is abstracted to the index of the failing call (harness: the returned error must be == the sentinel)",
        "what Ingest does on cancellation and on open(2) failures is outside C12 (see C13) - except that a callback error is to be returned unchanged also when the context was cancelled before the callback returned it (by the callback or by another goroutine; the close-on-cancel goroutine has closed the file or not: harness cases 'cancel', oracle and model unchanged by them)",
    ],
    modelled=["ingesters/namedpipe/namedpipeingester.go (Ingest loop)", "ingesters/syslog/syslogingester.go (ParseSyslogMessage)",
              "$GOROOT/src/bufio/bufio.go, Go 1.23.5 (Reader: NewReaderSize, NewReader, fill, readErr, Buffered, ReadSlice, collectFragments, ReadString): Model/Bufio.v, hand-written, tied by the bufio stage"],
    extra_targets=["Model/FramingCheck.vo", "Model/SyslogCheck.vo", "Model/BufioCheck.vo"],
    # the bufio.Reader model against the real package: both tiers
    thorough_extra=[("bufio", {}, ["-n", "3000", "-big", "5"], False, ["-n", "250"])],
))

for _p in ("C05", "C07"):
    sshd(_p)

reg(Spec(
    "C03", "Props/C03.v", harness="tracker", overlay=TRACKER_OVERLAY, race=True,
    args_quick=["-mode", "conc", "-prop", "C03", "-n", "14", "-cvol", "3"],
    args_thorough=["-mode", "conc", "-prop", "C03", "-n", "150", "-cvol", "8", "-volbig"],
    args_search=["-mode", "conc", "-prop", "C03", "-n", "40", "-cvol", "2"],
    assumptions=TRACKER_ASSUME + [VOLUME_ASSUME,
        "one GenericSyncMap method call = one critical section; nested acquisition (Store(sessions) inside WithLockedValueDo(parked)) is modelled as one block",
        "schedules are forced at the VerifPoint hooks (just before each lock acquisition): exactly the granularity of the model's blocks",
        "data-race freedom is checked by the Go race detector on every explored schedule, not proved",
    ],
    modelled=TRACKER_MODELLED + ["internal/common/genericsyncmap.go (one method = one atomic block)"],
))

sshd("C06")

reg(Spec(
    "C10", "Props/C10.v", harness="pipeline", race=True,
    # third stage: harness/sshd -mode slow judged by C10's oracle (hand-offs nobody takes for 0.15 s ... 12 s: the line's event
    # exactly once, whole JSON, written before the hand-off completes); cases run concurrently, the stage lasts as long as its longest wait
    thorough_extra=daemon_extra("C10", 60, 600) + [("jsonenc", {}, ["-n", "700"], False, ["-n", "60"]),
                                                   ("sshd", {}, slow_handoff("C10", [150, 700, 2500, 6500, 12000]), False, slow_handoff("C10", [150, 700, 2500]))],
    search_extra=[("sshd", {}, slow_handoff("C10", [2500, 6500, 12000, 31000]), False)],
    extra_targets=["Model/JsonEncCheck.vo"],
    # -stalls: scenarios in which the audit side is slow to take logins (one UserAction write stalls that many ms); run concurrently
    args_quick=["-n", "60", "-stalls", "2500,2800,3300"],
    args_thorough=["-n", "1500", "-stalls", "2500,3000,4500,6500,9000,12000"],
    args_search=["-n", "400", "-stalls", "2500,3500,6500,12000"],
    assumptions=[
        "A-append, what is left of it: that the kernel does not interleave single write(2) calls on the O_APPEND output file is observed (built daemon, events file read back), not proved",
        "JSON rendering (Model/JsonEnc.v, stage jsonenc): the text of an event is MODELLED (encoding/json appendString over utf8.DecodeRuneInString, sorted maps, omitempty, trailing newline) and PROVED, for all field contents, to be one line ending in its only newline (C10_json_one_line, C10_json_lines_split), to read back field by field (C10_json_string_roundtrip, C10_json_parse_event) and not to depend on map insertion order; the model is compared byte for byte with the real writer on every run, incl. events written by the real sshd processor and the real correlator; 'one Encode = one Write call' is observed by the recording writer on every event",
        "JSON rendering, stated not proved: LoggedAt enters the model already formatted (time_text_ok: digits and - : . T Z +; time.Time.MarshalJSON fails outside years 0..9999); Data is the JSON value whose json.Marshal output the RawMessage holds (the encoder's re-scan appendCompact is the identity on such text: observed byte for byte); Extra values are strings, string slices, aucoalesce.Object, string maps, nested maps or nil",
        "the hand-off happens only after the UserLogin was written (wf_run): an assumption of C10_causal over free runs, PROVED for combined runs (C10_combined_run_wf, Model/PipelineSshd.v: records processed sequentially by SshdProc.process, rendez-vous hand-off, Read's loop holding at most one login, any schedule); C10_causal_combined / C10_once_combined carry no such hypothesis",
        "combined runs: a login is abstracted to (record index, forwarded PID, handler clock, credential id non-empty); cleanups may fall between a rendez-vous and its RemoteLogin (more interleavings than the code has)",
        "correlator calls are atomic (C03); the tracker component of a pipeline run is the sequential correlator on the run's own history",
        "time in the hand-off path: the model's hand-off is a rendez-vous without clock; that nothing is written AGAIN (and nothing else happens to the output) while a hand-off is pending is checked on the "
        "real code for waits of several magnitudes - harness/sshd -mode slow (nobody receives for 0.15 / 0.7 / 2.5 s quick, up to 12 s thorough, up to 31 s as search) and harness/pipeline scenarios in which the "
        "audit side is slow to take logins (the writer stalls one UserAction write for 2.5-3.7 s quick, up to 12.4 s thorough, under the correlator's lock, while accepted lines arrive); oracle: one UserLogin per accepted line, "
        "one whole JSON line per write, UserLogin before the hand-off completes / before any UserAction of that identity",
        DAEMON_ASSUME,
        "large events (both stages): execve events whose argument list makes the UserAction line 3-70 KiB, account names / certificate key ids of some KiB (UserLogin lines beyond one page, and every "
        "UserAction of such a session: many short audit records, each a large output line). Daemon stage, every fourth scenario: while the audit pipeline works through these the harness keeps a burst of "
        "stand-alone failure lines going on the sshd pipe (until the events file holds the UserActions the scenario must produce; bounded), GOMAXPROCS >= 2, no pacing; every line of the events file must "
        "be one whole JSON event. That a single write(2) of any size on an O_APPEND regular file is not interleaved with another is the kernel's behaviour, observed",
    ],
    modelled=["cmd/namedpipe.go wiring (one event writer, unbuffered logins channel)", "order of write and hand-off in processors/sshd", "sessiontracker (shared model)",
              "encoding/json (Encoder.Encode, appendString, mapEncoder, structEncoder/omitempty) + unicode/utf8.DecodeRuneInString as used for auditevent.AuditEvent: Model/JsonEnc.v, hand-written, tied byte for byte by harness/jsonenc (Model/JsonEncCheck.v)"],
))

reg(Spec(
    "C14", "Props/C14.v", harness="render",
    # round 7: the records reach the processor through the daemon's pipe reader (C14_records_reach_processor_unchanged); daemon stage: every
    # UserAction of the built daemon's events file against the library's rendering of the record group written (harness/daemon/render.go)
    thorough_extra=daemon_extra("C14", 12, 240),
    search_extra=[("daemon", {}, ["-prop", "C14", "-n", "120"], False)],
    overlay={"processors/auditd/sessiontracker/verif_export.go": "harness/overlay/sessiontracker_verif.go",
             "processors/auditd/verif_export.go": "harness/overlay/auditd_verif.go"},
    args_quick=["-n", "150"], args_thorough=["-n", "1500"], args_search=["-n", "800"],
    assumptions=[
        "go-libaudit (ParseLogLine, Reassembler, CoalesceMessages, ResolveIDs) is not modelled: the model starts at the coalesced event; the library is the oracle for action/how/object and the argument list",
        "identity content = subjects, source{type,value,extra}, target as key-sorted association lists; JSON omitempty makes empty and absent equal",
        "non-mutation of the stored Go login object is checked by deep-copy comparison in the harness (a correspondence obligation), the model-level statement is C14_non_mutation",
        DAEMON_ASSUME, READER_ASSUME,
    ],
    modelled=["sessiontracker.go: user.toAuditEvent, writeAndClearCache", "reassembler_callback.go: ReassemblyComplete (exercised, library parts as oracle)"],
    extra_targets=["Model/ToEventCheck.vo"],
))

WORKERS_MODELLED = ["ingesters/namedpipe (Ingest), ingesters/auditlog (Process), ingesters/syslog (Process), processors/sshd (login hand-off), processors/auditd/auditd.go (Read, parseAuditLogs, maintainReassemblerLoop): blocking structure generated into Gen/Blocking.v",
                    "cmd/namedpipe.go + main.go: errgroup wiring, generated"]
reg(Spec("C13", "Props/C13.v", harness="workers", overlay={},
    args_quick=["-prop", "C13", "-n", "30"],
    args_thorough=["-prop", "C13", "-n", "100"],
    args_search=["-prop", "C13", "-n", "60"],
    assumptions=[
      "a worker is a set of goroutines each Running | BlockedAt row | Joining | Returned; one scheduled step runs a goroutine to its next blocking operation",
      "Go's random select may prefer another ready arm over ctx.Done() at most K times (theorem for every K; bound 2K+4 fair rounds)",
      "guarded flags for ReadString/OpenFile are idioms recognised by go2v; that close(2) unblocks read(2) and wall-clock time are observed by the harness (bound 2 s), not proved",
      "the leaked opener goroutine and a Maintain() call in flight while Read closes the reassembler are not modelled",
      "'its context' of the sshd-side worker is the context handed to Ingest / Process / ProcessSshdLogEntry, not the one NewSshdProcessor was configured with (scenarios child-ctx/*: only the former is cancelled); on the built binary it is the errgroup's context, cancelled by a sibling's failure while the process context lives on (sibling-failure/*: racy, repeated 5/12/20 times per variant)"],
    modelled=WORKERS_MODELLED, extra_targets=["Model/ErrgroupCheck.vo"]))
SPECS["C13"].assumptions = SPECS["C13"].assumptions + [
    "state 'blocked reading an idle pipe' also with an UNTERMINATED PARTIAL RECORD in the read buffer (harness/workers/c13_partial.go, scenarios partial-record/*): the writer has sent the beginning of a record "
    "and pauses, the reader has consumed it (observed: FIONREAD on the pipe = 0), then the context is cancelled - with every downstream state: the audit line channel of capacity 0 / 1 / 3 / 16 full and its consumer "
    "stopped, or empty; sshd side: the partial record already is a recognisable accepted-login line of each hand-off form (only its newline is missing) or is cut in the middle, unbuffered logins channel nobody "
    "receives from, processor configured on the worker's context or on a longer-lived one; the worker must return within 2 s and deliver nothing afterwards"]
reg(Spec("C08", "Props/C08.v", harness="workers", overlay={},
    args_quick=["-prop", "C08"],
    args_thorough=["-prop", "C08", "-n", "3"],
    args_search=["-prop", "C08", "-n", "2"],
    harness_timeout=300,
    assumptions=[
      "daemon = errgroup over group_workers; a daemon round = one fair round of every worker under the same group context; that a returned error or a signal cancels it for good by the end of the round, and that Wait returns non-nil iff a worker failed, is no longer a stated rule of Model/Workers.v alone: every round of the composite (workers + errgroup machine, Model/ErrgroupDaemon.v: a round of every worker, then three fair rounds of the group's own threads) is PROVED to be such a daemon round (C08_errgroup_round_is_dround, C08_errgroup_daemon_simulation / _exit / _fail_stop)",
      "signal delivery, log.Fatalln's status 1, the kernel FIFO and 'buffer full' under load (writer floods 1.2 s, >40k lines vs 10000 slots) are runtime facts observed on the built binary (bound 5 s)",
      "optional HTTP/metrics workers: their goroutines are generated and stated per flag valuation (C08_http_server_goroutines_from_source, C08_audit_metrics_ticker_from_source, C08_optional_workers_off_by_default); what "
      "net/http's Shutdown / ListenAndServe do is not modelled - observed on the built binary (harness/workers/c08_http.go): every flag valuation that starts an optional worker, HTTP clients in every connection state at the moment "
      "of the stop cause (none, fresh, idle keep-alive, request half sent, pipelined requests whose responses are not read / read slowly so that a handler blocks in Write, 40 connections), both signals, every worker failure and "
      "the HTTP worker's own (port taken); bound 5 s. The server's address is fixed in the source (:2112): these scenarios run one at a time under a machine-wide lock file and are skipped with a note when a foreign process holds the port",
      "exit status: Workers.exited's 1/0 is tied to func main as interpreted from main.go (C08_exit_status_from_source); log.Fatal* = 1 and os.Exit(n) = n are the interpreter's reading of the standard library"],
    modelled=WORKERS_MODELLED, extra_targets=["Model/ErrgroupCheck.vo"]))

AUDITPROC_OVERLAY = {"processors/auditd/verif_c15_export.go": "harness/overlay/auditd_c15_verif.go"}
# C16: real-time runs of the real Auditd.Read (second half inside / well outside the window, with and without
# unrelated traffic): ~135 s, thorough tier, and in any tier when an obligation broke and no failing input was found
_RT = ("auditproc", AUDITPROC_OVERLAY, ["-mode", "realtime"], False)
SPECS["C16"].thorough_extra = SPECS["C16"].thorough_extra + [_RT]
SPECS["C16"].search_extra = [_RT]
SPECS["C16"].assumptions = SPECS["C16"].assumptions + [
    "real-time stage (thorough tier; also run as a search when the generated ticker/cut-off obligations break): eight concurrent "
    "processors, second half 30-50 s (must correlate) or 130 s (must have been discarded) after the first, silence or unrelated traffic every 7-20 s; "
    "plus eight processors whose event sink stalls for 20-40 s across the first cleanup tick (one write of an unrelated session does not return, inside "
    "RemoteLogin's flush or inside AuditdEvent), the first half produced during the stall or well before it, the second half 50-58 s later (must correlate; "
    "judged only when the MEASURED distance stayed below the minute) or 125 s later (must have been discarded); the stage lasts about 150 s"]

# C03 through the daemon's own wiring: logins on Auditd.Logins || audit lines on Auditd.Audits of the REAL Auditd.Read, forced
# single-preemption schedules at the GenericSyncMap lock points (victim: Read's loop goroutine inside RemoteLogin, or the parser
# goroutine inside the reassembler callback), race detector, one child process per case
SPECS["C03"].thorough_extra = SPECS["C03"].thorough_extra + [
    ("auditproc", AUDITPROC_OVERLAY, ["-mode", "conc", "-n", "256"], True, ["-mode", "conc", "-n", "32"])]
SPECS["C03"].assumptions = SPECS["C03"].assumptions + [
    "wiring stage (auditproc -mode conc): the correlator is reached through Auditd.Read (which object each goroutine is handed is part of the run); "
    "one forced preemption per case, the other goroutine gets 120 ms to complete its racing deliveries while the victim is paused (on a tree whose "
    "correlator calls exclude each other it blocks and the victim is released after that time); cleanup ticks (one-minute ticker inside Read) are not "
    "driven here (C16's real-time stage does); oracle: per session every event exactly once, in order, with its login's identity"]

# C08 at package level: the real Auditd.Read must return on cancellation / an invalid login / an event write failure while
# producers keep its Audits channel non-empty before, during and after the fault
SPECS["C08"].thorough_extra = SPECS["C08"].thorough_extra + [
    ("auditproc", AUDITPROC_OVERLAY, ["-mode", "cancelfull", "-n", "4"], False, ["-mode", "cancelfull", "-n", "1"])]
SPECS["C08"].assumptions = SPECS["C08"].assumptions + [
    "binary scenarios, a pipe worker still waiting for its FIRST writer (harness/workers/c08_openwait.go, variants open-wait/<pipe>/<disturbance>): one of the two FIFOs never gets a writer, so its worker is parked in "
    "open(2) (observed in /proc/<pid>/task/*/syscall of the child where readable, otherwise given 300 ms); while it waits the FIFO's directory entry is left alone / renamed away and re-created / removed / replaced "
    "by a regular file; then every stop cause that does not need that pipe (end-of-stream or an unparsable record on the other pipe, a login the correlator refuses, an event write failure, SIGTERM, SIGINT): exit within "
    "5 s, non-zero on a failure. Not run: a FIFO made unwritable for the daemon's user (the harness runs as root, for which mode bits do not apply)",
    "binary scenarios, the audit side failing while the sshd side hands logins over (harness/workers/c08_handoff.go): a login the correlator rejects, an unparsable audit line, "
    "audit-pipe end-of-stream and the events sink breaking under a stream of session events, each injected while accepted logins of all four forms arrive on the sshd pipe - in ONE "
    "write with / right before the fault (burst: 360 lines, no waiting in between) or from a writer that keeps the pipe full (flood: fault 20-60 ms after events flow; racy, twice per "
    "round, a replay repeats up to 12 times) - so that an sshd worker is in the hand-off, or enters it from lines already in its read buffer, when nobody receives logins any more; the "
    "daemon must exit non-zero within 5 s",
    "binary scenarios: every processor-local failure cause (audit-side write failure after the login was recorded, invalid login) also under sustained "
    "audit load whose writer keeps writing after the fault; package-level stage (auditproc -mode cancelfull): Auditd.Read returns within 2 s of "
    "cancellation / invalid login / write failure while 2-3 producers keep its Audits channel (capacity 0, 1, 64, 10000) non-empty",
    "Gen/Blocking.v: a non-blocking select (default arm, no ctx.Done() arm) repeated by a loop that does not itself look at the context is an unguarded row "
    "(busy loop that ends only when the channel is momentarily empty)"]

# C07, auditd half on the daemon's own path: every generated audit record bare / with its terminator through the real
# parseAuditLogs, and through a real FIFO + named-pipe ingester + audit-log ingester; record lengths swept densely
SPECS["C07"].thorough_extra = SPECS["C07"].thorough_extra + [
    ("auditproc", AUDITPROC_OVERLAY, ["-mode", "frame", "-n", "1500", "-dense"], False, ["-mode", "frame", "-n", "150"])]
SPECS["C07"].assumptions = SPECS["C07"].assumptions + [
    "auditd half (stage auditproc -mode frame): the reference message of a record is what go-libaudit's parser yields for the bare record; "
    "the real parseAuditLogs must push exactly that message for the bare record, for the record with its terminator, and for the record "
    "written into a real FIFO read by the real ingesters; every total length from a template's shortest record to 16 KiB + 512 "
    "(a blank line is not an audit record and is not generated)"]

reg(Spec("C15", "Props/C15.v", harness="auditproc", overlay=AUDITPROC_OVERLAY,
    args_quick=["-n", "150"], args_thorough=["-n", "2000"], args_search=["-n", "1200"],
    assumptions=[
      "auparse.ParseLogLine, aucoalesce.CoalesceMessages/ResolveIDs, the After comparison and the correlator are oracles (explicit arguments of every theorem); level 2 instantiates the correlator with Model/Tracker.v",
      "go-libaudit's reassembler.go (eventList.Put/CleanUp/Clear/remove, event.Add/IsExpired, sequenceNumSlice.Less, abs, Reassembler.PushMessage/Maintain/Close/callback) is translated on every run from the module /repo/go.mod pins (tools/go2v/reassemblergen.go resolves require+replace to the module cache, vendor/ or a local directory and compares the directory's h1 hash with go.sum; Gen/ReassemblerProg.v, IR and interpreter Model/ReassemblerIR.v) and proved equal to the model's put / cleanup / rstep for all inputs (C15_reassembler_from_source_*), under the WINDOW CONDITION: sort.Sort has a defined result only when Less is a strict total order on the sequence numbers present; that holds, with Less = the plain order, for numbers pairwise closer than 2^24 (the plain-order model of the C15 theorems) and, with the order-generic model rstep_by seq_less, for two such clusters further apart than 2^24-1 (e.g. either side of the 2^32 wrap); it fails in general (Less is not transitive: 0 < 2^24-1 < 2^25-2 < 0), and such streams are outside both the theorems and the generated cases",
      "trusted for the reassembler tie: the translator's reading of the constructs it accepts (fails closed otherwise), the interpreter's heap / map / mutex / uint32 semantics, sort.Sort's contract as stated in Model/ReassemblerIR.v, one clock reading per PushMessage/Maintain call; both also exercised by the correspondence check, whose level-1 modes wrap and far run the real library across the 2^32 wrap and on clusters 2^24 apart against rstep_by seq_less",
      "time is an input (value of time.Now() per call); real expiry is exercised only with a 60 ms timeout and 150 ms pauses",
      "Read's main loop is modelled as polling after every step of the parser/maintain goroutines (eager select); the both-errors-pending race and what the parser goroutine does after Read returned (C13) are not modelled",
      "Read (set-up, deferred calls, the five select arms), parseAuditLogs, maintainReassemblerLoop, ReassemblyComplete and EventsLost are translated from the source on every run (Gen/AuditProg.v, IR and interpreter Model/AuditIR.v) and proved equal to the model for all inputs and oracles (C15_processor_from_source_*); trusted there: the translator's reading of the constructs it accepts (it fails closed otherwise) and the interpreter's stated contracts of the library calls (ResolveIDs resolves in place, NewReassembler succeeds, Maintain fails iff closed, a select without default takes the arm the environment chooses)",
    ],
    modelled=["processors/auditd/auditd.go (Read, parseAuditLogs, maintainReassemblerLoop: translated, tools/go2v/auditgen.go)", "processors/auditd/reassembler_callback.go (translated)", "go-libaudit reassembler.go (third-party, pinned: translated, tools/go2v/reassemblergen.go)"],
    extra_targets=["Model/AuditProcCheck.vo"]))


# errgroup + derived context as a machine (Model/Errgroup.v): the real golang.org/x/sync/errgroup of /repo's go.mod on scripted
# workers, forced-sequential scripts compared step by step with the model (Coq case files) and judged by a function-call-level
# oracle; racy scripts under the race detector.  Both tiers, both properties.
def errgroup_extra(pid):
    return [("errgroup", {}, ["-prop", pid, "-n", "3000", "-exh", "3", "-coq", "2000", "-racy", "1500", "-reps", "4"], True,
             ["-prop", pid, "-n", "250", "-exh", "2", "-racy", "120", "-reps", "3"])]


ERRGROUP_ASSUME = [
    "errgroup is no longer a stated rule: Model/Errgroup.v is golang.org/x/sync/errgroup v0.4.0 (Go, Wait, done, WithContext; SetLimit/TryGo/the semaphore are not used "
    "by /repo and are left out) as a small-step machine - one atomic step per shared-memory access / sync operation (wg.Add, go, f's return, errOnce.Do entry, g.err = err, "
    "g.cancel(g.err), Once release, wg.Done, wg.Wait's test, Wait's cancel, Wait's read of g.err), the parent context cancellable at any step - and the rule of "
    "Model/Workers.v's dround / exited is PROVED from it for every script and schedule (C08_errgroup_*, C13_errgroup_*, refinement C08_errgroup_daemon_*)",
    "trusted about the machine: the reading of sync.WaitGroup (a counter; Wait passes when it is 0; Done on 0 panics), sync.Once (new / running / done; other callers block "
    "while it runs) and context.WithCancelCause (first cancellation wins, cause recorded, a cancelled parent cancels the child in the same step) as atomic steps, i.e. "
    "sequential consistency of those library operations (Go memory model: they are synchronising); the worker function is the environment (its return is a schedule item, "
    "a waiting worker returns only once the context is done); tied on every run by stage errgroup: forced-sequential scripts (quiescence awaited through ctx.Done, Wait's "
    "result and runtime.NumGoroutine, never a sleep as oracle) against the model and a function-call-level oracle, racy scripts under -race",
]
for _p in ("C08", "C13"):
    SPECS[_p].thorough_extra = SPECS[_p].thorough_extra + errgroup_extra(_p)
    SPECS[_p].assumptions = SPECS[_p].assumptions + ERRGROUP_ASSUME
    SPECS[_p].modelled = SPECS[_p].modelled + ["golang.org/x/sync/errgroup (third-party, pinned by /repo/go.mod): Model/Errgroup.v, written by hand from errgroup.go, tied by stage errgroup"]

# C07 (auditd half) and C15 ("unparsable line"): go-libaudit's header-level line parser is inside the model (Model/Auparse.v);
# the tie to the real library is the auparse stage, in both tiers
def _auparse_stage(pid, quick, thorough):
    return ("auparse", {}, ["-prop", pid] + thorough, False, ["-prop", pid] + quick)


AUPARSE_ASSUME = [
    "auparse.ParseLogLine (header level) is inside the model: Model/Auparse.v follows go-libaudit v2.3.3 auparse.go / zaudit_msg_types.go statement by statement (ParseLogLine: strings.Index for 'msg=', the msgIndex < 6 test, the "
    "type-name slice line[5:msgIndex-1]; GetAuditMessageType: ToUpper, table lookup, the UNKNOWN[n] fallback via IndexByte and ParseUint(.,10,16); Parse: TrimSpace, parseAuditHeader with its four IndexRune searches, "
    "ParseInt(.,10,64) twice, ParseUint(.,10,32), time.Unix(sec, msec*1e6) incl. the int64 wrap, indexOfMessage) over exact models of strconv.ParseInt/ParseUint base 10 (Go 1.23.5: sign, empty, non-digits, the cutoff test, the wrapping add, "
    "range errors at 2^63 / 2^64 / 2^32 / 2^16) and of strings.TrimSpace / ToUpper on ASCII; every slice expression is a possible panic outcome, PROVED never to occur; the message-type table is a parameter of every theorem "
    "(no contract assumed); the tie to the real library is the auparse stage (both tiers): the real ParseLogLine, GetAuditMessageType, strconv, TrimSpace and time.Unix on generated inputs against the model in Coq "
    "(result class by the library's own error values, RecordType, Timestamp as (Unix(), Nanosecond()), Sequence, the unexported offset, RawData), the table being the library's own map dumped on every run; "
    "plus oracles from the construction of the input (trailing ASCII white space never changes the result; well-formed lines yield the generated fields; no panic)",
    "outside the auparse model, as the explicit outcome PUnmodelled (never compared, but the harness' flag computed from the bytes alone must then be set; every theorem holds of that outcome too, i.e. the domain is closed "
    "under appending ASCII white space): a byte >= 0x80 in the type-name position (strings.ToUpper maps runes there: U+017F upper-cases to 'S'), a byte >= 0x80 at either end of the text behind 'msg=' once its ASCII white space is "
    "removed (strings.TrimSpace's unicode.IsSpace fallback); not modelled at all: key/value parsing of the message body (AuditMessage.Data, kvRegex, normalizeAuditMessage, aucoalesce)",
]
AUPARSE_MODELLED = ["go-libaudit v2.3.3 auparse/auparse.go (ParseLogLine, Parse, parseAuditHeader, indexOfMessage) and auparse/zaudit_msg_types.go (GetAuditMessageType), strconv.ParseInt/ParseUint base 10, "
                    "strings.TrimSpace/ToUpper (ASCII), time.Unix: Model/Auparse.v, hand-written, tied by the auparse stage"]

for _p, _q, _t in (("C07", ["-n", "360"], ["-n", "6000", "-nums", "3000", "-types", "1500", "-trims", "1200"]),
                   ("C15", ["-n", "360"], ["-n", "6000", "-nums", "3000", "-types", "1500", "-trims", "1200"])):
    SPECS[_p].thorough_extra = SPECS[_p].thorough_extra + [_auparse_stage(_p, _q, _t)]
    SPECS[_p].extra_targets = SPECS[_p].extra_targets + ["Model/AuparseCheck.vo"]
    SPECS[_p].assumptions = SPECS[_p].assumptions + AUPARSE_ASSUME
    SPECS[_p].modelled = SPECS[_p].modelled + AUPARSE_MODELLED

# the parser is an oracle ARGUMENT of the C15 processor theorems (they hold for every parser); which lines the real one rejects is
# now modelled and proved (C15_parse_*), and C15_parse_stops_at instantiates C15_parse_first with it
SPECS["C15"].assumptions[0] = (
    "aucoalesce.CoalesceMessages/ResolveIDs, the After comparison and the correlator are oracles (explicit arguments of every theorem); "
    "auparse.ParseLogLine is an explicit argument of the processor theorems too (they hold for every parser) AND is modelled: C15_parse_accepts_iff / "
    "_err_header_iff / _err_type_iff / _unmodelled_iff say exactly which lines it accepts and rejects, C15_parse_stops_at is C15_parse_first with the "
    "modelled parser as the oracle (streams inside the modelled domain); level 2 instantiates the correlator with Model/Tracker.v")


# Group R: the primitives under the sshd / syslog models, tied function by function (stage harness/prims, both tiers).
#   regex part  (C06; also C11 C17): the package's own compiled patterns (accessor VerifRegexes, cross-checked against the var
#                declarations of openssh_regex.go) - FindStringSubmatchIndex + MatchString on texts generated from each pattern's
#                structure, all indices compared in Coq with find_idx / Lib.Regex.find / matches on the regenerated
#                Gen/SshdRegexes.v entry of the same name (Model/PrimsCheck.v)
#   strings part (C07): every Lib/GoStrings.v function against package strings, atoi against strconv.Atoi
PRIMS_OVERLAY = {"processors/sshd/verif_export.go": "harness/overlay/sshd_regex_verif.go"}


def prims_regex(pid, n_quick=60, n_thorough=900):
    return [("prims", PRIMS_OVERLAY, ["-mode", "regex", "-prop", pid, "-n", str(n_thorough)], False,
             ["-mode", "regex", "-prop", pid, "-n", str(n_quick)])]


def prims_strings(pid, n_quick=40, n_thorough=600):
    return [("prims", PRIMS_OVERLAY, ["-mode", "strings", "-prop", pid, "-n", str(n_thorough)], False,
             ["-mode", "strings", "-prop", pid, "-n", str(n_quick)])]


PRIMS_REGEX_ASSUME = [
    "the matcher is no longer only 'the textbook backtracking matcher': Lib.Regex.find is PROVED, for every item list, text and start offset, sound, complete and "
    "priority-correct against a declarative leftmost-first / greedy semantics (Model/RegexSpec.v: Parse, lex_ge, Best; theorems C06_regex_* in Props/C06.v); what stays "
    "assumed is that Go's regexp implements that semantics for these flat patterns - now exercised directly: stage prims -mode regex calls FindStringSubmatchIndex and "
    "MatchString of the package's own compiled patterns on texts generated from each pattern's structure and compares ALL indices with the model in Coq",
    "bytes vs runes, made precise: a pattern is rune-safe (Model/RegexSpec.v rune_safe; the harness computes it from regexp/syntax, the Coq checker recomputes it from the "
    "generated item list and the two must agree, case RP) when every class holds all or none of the bytes >= 0x80, every single-BYTE item over an all-high class is the head of x+ "
    "(elsewhere go2v emits the rune item IRune) and every greedy star over one is followed by an ASCII literal, an ASCII-only class byte, $ or the pattern's end; all 20 patterns "
    "are rune-safe (go2v refuses others), so the comparison runs on ALL texts (multi-byte runes, invalid UTF-8, NUL); for a pattern that were not, only ASCII texts would be "
    "compared and the rest counted as outside the domain. Proved at byte level: ASCII offsets and the end of the text are rune boundaries of Go's decoding loop in any byte string, "
    "a rune-safe star ends at one, IRune consumes one decoding step (C06_regex_ascii_offset_is_boundary, _star_ends_at_boundary, _rune_item_is_one_step)",
]
PRIMS_STRINGS_ASSUME = [
    "Lib/GoStrings.v and Model/SshdProc.atoi are tied function by function to package strings / strconv.Atoi (stage prims -mode strings) and characterised by the "
    "C07_strings_* theorems (first occurrence, split/join round trip, piece count, cut, prefix/suffix, trim, strict total byte order, arithmetic mod 2^64 / 2^32, "
    "atoi s = Some z <-> sign-and-digits syntax with value z in the int64 range); domain guards carried by the cases: Split for a non-empty separator (Go splits "
    "into UTF-8 sequences otherwise), TrimLeft for an ASCII cutset",
]
for _p in ("C06", "C11", "C17"):
    SPECS[_p].thorough_extra = SPECS[_p].thorough_extra + prims_regex(_p, 60 if _p == "C06" else 25, 900 if _p == "C06" else 300)
    SPECS[_p].assumptions = SPECS[_p].assumptions + PRIMS_REGEX_ASSUME
    SPECS[_p].modelled = SPECS[_p].modelled + ["Go regexp (FindStringSubmatchIndex / MatchString) on the flat patterns: Lib/Regex.v, hand-written, PROVED against Model/RegexSpec.v, tied by stage prims -mode regex"]
    SPECS[_p].extra_targets = SPECS[_p].extra_targets + ["Model/PrimsCheck.vo"]
SPECS["C07"].thorough_extra = SPECS["C07"].thorough_extra + prims_strings("C07")


# C07 with a slow CONSUMER of logins (round 7; harness/workers/c07_slow.go): the same (pid, message) handed over directly, through
# SyslogIngester.Process and through a real FIFO + SyslogIngester.Ingest while nobody receives from the unbuffered logins channel
# for the given time; all cases run concurrently, the stage lasts about as long as its longest delay
def slow_consumer(delays):
    return ["-prop", "C07", "-delays", ",".join(str(d) for d in delays)]


SPECS["C07"].thorough_extra = SPECS["C07"].thorough_extra + [
    ("workers", {}, slow_consumer([150, 1500, 2500, 4500, 6500, 12000, 31000]), False, slow_consumer([150, 700, 2500, 4500]))]
SPECS["C07"].search_extra = SPECS["C07"].search_extra + [("workers", {}, slow_consumer([2500, 6500, 12000, 31000, 61000]), False)]
SPECS["C07"].assumptions = SPECS["C07"].assumptions + [
    "slow-consumer stage (harness/workers/c07_slow.go): framed = direct also when the consumer of logins is slow - each login form of the four hand-off selects, a failure line and an unrecognised line, "
    "handed to ProcessSshdLogEntry directly, to SyslogIngester.Process, and written to a real FIFO read by SyslogIngester.Ingest, each with a processor and an unbuffered logins channel of its own from which "
    "nobody receives for 0.15 / 0.7 / 2.5 / 4.5 s (quick), up to 31 s (thorough), up to 61 s (search after a broken obligation); the framed paths must yield the direct path's events (without timestamp and the "
    "event's random id) and forwarded logins and return what it returns; a path that has not dealt with the record 10 s after the consumer started is a failure; real time is an input, the oracle waits for the paths to return",
    READER_ASSUME]
SPECS["C07"].assumptions = SPECS["C07"].assumptions + PRIMS_STRINGS_ASSUME
SPECS["C07"].modelled = SPECS["C07"].modelled + ["package strings (HasPrefix HasSuffix TrimPrefix TrimSuffix Index Cut Split Join TrimLeft), string <, indexing/slicing panics, uint64/int32 arithmetic, strconv.Atoi: Lib/GoStrings.v + Model/SshdProc.atoi, hand-written, tied by stage prims -mode strings"]
SPECS["C07"].extra_targets = SPECS["C07"].extra_targets + ["Model/PrimsCheck.vo"]


# Group K: time.Ticker and the consumption of its ticks by Auditd.Read's select loop are inside the model (Model/Ticker.v;
# theorems C16_ticker_* in Props/C16.v); stage harness/ticker (both tiers) ties the ticker model to the real time.Ticker.
SPECS["C16"].thorough_extra = SPECS["C16"].thorough_extra + [
    ("ticker", {}, ["-n", "384", "-par", "24"], False, ["-n", "24", "-par", "24"])]
SPECS["C16"].extra_targets = SPECS["C16"].extra_targets + ["Model/TickerCheck.vo"]
SPECS["C16"].assumptions = SPECS["C16"].assumptions + [
    "time.Ticker is inside the model (Model/Ticker.v): period I, start T0, at every T0 + k*I (k >= 1) a NON-BLOCKING send into a channel of capacity 1 (delivered if the slot is "
    "empty, dropped otherwise); the consumer is Read's loop given as the sorted list of instants at which it is at its select (an idle loop is free at the tick's own instant; "
    "frees_of_busy derives the list from busy intervals); a consumed tick runs the tick arm AS GENERATED in Gen/AuditProg.v at clock reading c = its consumption time "
    "(C16_ticker_cleanups_from_source: for the generated Read that is both sweeps with cut-off c - I, I the generated ticker period). Proved for every period, start and "
    "schedule: C16_ticker_* (closed form, one buffered tick, consumption at or after the tick's instant and before the next delivered tick's, liveness within d, keeps for every "
    "cleanup at c <= a + I, drops by a cleanup in (a + I, a + 2I + d), the previous-cleanup cut-off refuted)",
    "what stays assumed about the real ticker - that the runtime sends at T0 + k*I without drift and never blocks - is exercised by stage ticker on every run: real "
    "time.NewTicker(40-120 ms) against scripted busy patterns (no stall, 0.5 / 1.5 / 2.5 / 5.5 periods, back-to-back, from before the first tick), delivered and lost tick "
    "indices and receive times compared in Coq with consumed / dropped (Model/TickerCheck.v), oracle without the model; the harness is built inside /repo's module (go 1.19 in "
    "go.mod => asynchronous timer channels, the implementation the daemon runs; the go >= 1.23 synchronous implementation has the same observable contract but is not exercised); "
    "time.Now() in the arm is read at the consumption time (the arm's own run time before the call is not modelled); which other arm a select with several ready channels takes "
    "is part of the schedule (any instant at which the tick arm is not taken is simply not a free instant)"]
SPECS["C16"].modelled = SPECS["C16"].modelled + [
    "$GOROOT/src/time/tick.go + sleep.go (NewTicker, the periodic timer's sendTime: non-blocking send into a capacity-1 channel): Model/Ticker.v, hand-written, tied by the ticker stage",
    "Auditd.Read's consumption of the ticks: Model/Ticker.v run / consumed / cleanup_ops_gen (interprets the generated tick arm of Gen/AuditProg.v)"]
