"""Per-property text for MANIFEST.json."""
HOOK_COMMITS = ["cc08f79"]

NOT_CLAIMED = {}

META = {
    "C18": {
        "text": "Coq theorems C18_iff (every op sequence, every prefix), C18_snapshot (every interleaving of a request's two critical sections with concurrent stores) and C18_wait (every sequence of select arms) over the Health model; the model is tied to internal/health by differential execution through the real HTTP handler, including forced interleavings at the lock hook points.",
        "design_ref": "DESIGN.md 6/C18",
        "note": "Trusted: Coq kernel; harness; abstraction of names to numbers; one GenericSyncMap call = one critical section (checked by lock traces); wall-clock polling of WaitForReady is observed not proved.",
        "technique": "Coq proof (induction over op list) + model/implementation correspondence by vm_compute",
    },
}
