"""Per-property text for MANIFEST.json."""
HOOK_COMMITS = ['cc08f79']

NOT_CLAIMED = {}

META = {
    "C18": {
        "text": "Coq theorems C18_iff (every op sequence, every prefix), C18_snapshot (every interleaving of a request's two critical sections with concurrent stores) and C18_wait (every sequence of select arms) over the Health model; the model is tied to internal/health by differential execution through the real HTTP handler, including forced interleavings at the lock hook points. C18_syncmap_methods_atomic / C18_syncmap_unsafe_calls_hold_lock: generated lock table of GenericSyncMap (one method call = one critical section).",
        "design_ref": "DESIGN.md 6/C18",
        "note": "Trusted: Coq kernel; harness; abstraction of names to numbers; one GenericSyncMap call = one critical section (checked by lock traces); wall-clock polling of WaitForReady is observed not proved.",
        "technique": "Coq proof (induction over op list) + model/implementation correspondence by vm_compute",
    },
    "C01": {
        "text": "Coq theorem C01_identity: for every history and every scan order, each emitted (login, event) pair is justified by a processed LOGIN record of the event's session whose pid is the login's pid and by a delivered login; under the uniqueness discipline that login is the only one. Proved by a history-relative invariant (induction over operations). The model is tied to sessiontracker.go by per-step simulation: after every call of the real correlator its dumped state, writes and result must equal the model's for some scan choice. The statement is lifted to CONCURRENT deliveries (C01_identity_concurrent): for every thread system and every schedule, a complete execution under the correlator-wide mutex writes what the sequential correlator writes on the linearization; the mutex is a generated obligation (C01_calls_atomic). Further stages in both tiers: forced single-preemption schedules on the real correlator under the race detector judged by this property's own oracle, and the built daemon on two FIFOs (harness/daemon).",
        "design_ref": "DESIGN.md 6/C01",
        "note": "Trusted: Coq kernel; harness and state-dump accessor (overlay); abstraction of identity to login ids; time bracketing.",
        "technique": "Coq proof (history-relative invariant) + per-step model/implementation simulation by vm_compute",
    },
    "C02": {
        "text": "Coq theorems C02_refines_machine (the correlator's outputs for a session equal those of a five-phase specification machine, by a refinement proof over all operations and states) and C02_exactly_once_in_order (at every prefix the emitted events of the session are a prefix, in processing order, of its events from the LOGIN record on, empty until both halves are known and reaching at least the disposal record afterwards). Same correspondence as C01 plus the once-in-order oracle on the implementation. The statement is lifted to CONCURRENT deliveries (C02_exactly_once_in_order_concurrent, C02_linearization_program_order): for every thread system and every schedule, a complete execution under the correlator-wide mutex writes what the sequential correlator writes on the linearization; the mutex is a generated obligation (C02_calls_atomic). Further stages in both tiers: forced single-preemption schedules on the real correlator under the race detector judged by this property's own oracle, and the built daemon on two FIFOs (harness/daemon).",
        "design_ref": "DESIGN.md 6/C02",
        "note": "Trusted: as C01. Hypotheses allowed_run/keeps_run are the uniqueness and no-discard discipline, stated explicitly in Props/C02.v and shown satisfiable by examples.",
        "technique": "Coq proof (refinement to a per-session specification machine + invariant over histories) + per-step simulation",
    },
    "C04": {
        "text": "Coq theorems C04_silence_step (for every prefix and next operation, anything written belongs to a numeric session with a processed LOGIN record and a delivered login of that record's pid; no well-formedness assumed), C04_untracked_ignored, C04_no_session. Correspondence as C01 with mixed correlated/uncorrelated histories. The statement is lifted to CONCURRENT deliveries (C04_silence_concurrent): for every thread system and every schedule, a complete execution under the correlator-wide mutex writes what the sequential correlator writes on the linearization; the mutex is a generated obligation (C04_calls_atomic). Further stages in both tiers: forced single-preemption schedules on the real correlator under the race detector judged by this property's own oracle, and the built daemon on two FIFOs (harness/daemon).",
        "design_ref": "DESIGN.md 6/C04",
        "note": "Trusted: as C01. That aucoalesce renders ses=4294967295 as 'unset' is library behaviour exercised at parser level (C14/C15 harness), not proved.",
        "technique": "Coq proof (invariant, step form for every prefix) + per-step simulation",
    },
    "C09": {
        "text": "Coq theorems C09_disposal_releases (the step that writes a session's disposal record, directly or from the hold queue, removes the session), C09_no_rebind (a login never changes a session that has one), C09_stray_ignored, C09_reuse (from any reachable state where no half of (s,p) waits, the new session's events are emitted once, in order, with the login arriving after that point). Correspondence as C01 with PID-reuse chains.",
        "design_ref": "DESIGN.md 6/C09",
        "note": "Trusted: as C01. The reuse theorem's precondition is a state predicate; Example C09_example_clean shows it holds after a completed earlier session of the same pid.",
        "technique": "Coq proof (case analysis on steps + refinement from an arbitrary reachable state) + per-step simulation",
    },
    "C16": {
        "text": "Coq theorems C16_clean_sessions_exact / C16_clean_logins_exact (cleanup keeps exactly correlated sessions and pending halves not older than the cut-off), C16_interval (interval = 1 min, ticker period and cut-off expression, generated from auditd.go), C16_window_keeps / C16_window_drops (a half survives every tick <= a+I, is dropped by a tick in (a+I, a+2I], and is then never emitted). Correspondence as C01 with cleanup calls at cut-offs between arrivals.",
        "design_ref": "DESIGN.md 6/C16",
        "note": "Trusted: as C01, plus go2v's reading of the constant and of Read's ticker/cut-off expressions. Real-time behaviour of time.Ticker is not modelled.",
        "technique": "Coq proof (arithmetic over Z + specification machine) on generated constants + per-step simulation",
    },
    "C17": {
        "text": "Coq theorems C17_failed_password, C17_max_attempts, C17_invalid_user: for every user name without newline (spaces, ' from ', ' port ', forged fragments included), every space-free peer address and decimal port, processing the message yields exactly one failed event whose source/port are the appended ones. The regexes and dispatch table in the statements are regenerated from the source by go2v on every run (Go's own regexp/syntax parses them), so a regex edit re-opens the proof obligation. Handlers are tied by differential execution on hostile names. Handlers: for ALL 20 handlers the hand-written model IS the interpretation of a decision tree (regex, guards, per-branch field sources, metric calls, hand-off credential) that go2v regenerates from the handler's Go body by symbolic evaluation on every run (C17_all_handlers_from_source; flat-sketch form C17_handlers_from_source for 18 of them).",
        "design_ref": "DESIGN.md 6/C17",
        "note": "Trusted: Coq kernel; go2v; byte-level = rune-level matching for these classes; backtracking matcher = RE2 leftmost-first for flat patterns (exercised by correspondence).",
        "technique": "Coq proof over generated regex ASTs (greedy-field lemma + marker counting) + model/implementation correspondence",
    },
    "C11": {
        "text": "Coq theorems C11_total (every line, token, writer and hand-off outcome: no panic, no error with a working writer, at most one event, forward only with the one succeeded event written) and C11_keyword (no keyword prefix => nothing at all happens), proved over the generated dispatch table and regexes by a bound lemma on matches and case analysis over all handlers. Differential execution on arbitrary bytes, mutations of valid messages and hostile pid tokens, with recovered panics. Handlers: for ALL 20 handlers the hand-written model IS the interpretation of a decision tree (regex, guards, per-branch field sources, metric calls, hand-off credential) that go2v regenerates from the handler's Go body by symbolic evaluation on every run (C11_all_handlers_from_source; flat-sketch form C11_handlers_from_source for 18 of them).",
        "design_ref": "DESIGN.md 6/C11",
        "note": "Trusted: as C17. Termination of Go's regexp is library behaviour. The 'verbatim substring' clause is checked by the oracle on the implementation and holds by construction in the model (captures are prefixes of suffixes of the line).",
        "technique": "Coq proof (all inputs; case analysis over generated dispatch/handlers) + correspondence on hostile inputs",
    },
    "C19": {
        "text": "Coq theorems C19_counted (an emitted event implies exactly one counter increment with matching outcome and the right method family) and C19_no_keyword, over the generated dispatch table (which carries the switch's metric calls). Counters are read from a private Prometheus registry before/after each line in the correspondence. Handlers: for ALL 20 handlers the hand-written model IS the interpretation of a decision tree (regex, guards, per-branch field sources, metric calls, hand-off credential) that go2v regenerates from the handler's Go body by symbolic evaluation on every run (C19_all_handlers_from_source; flat-sketch form C19_handlers_from_source for 18 of them).",
        "design_ref": "DESIGN.md 6/C19",
        "note": "Trusted: as C17; metric calls inside handlers are part of the generated decision trees (C19_all_handlers_from_source).",
        "technique": "Coq proof (walk of the generated dispatch table) + correspondence with counter deltas",
    },
    "C20": {
        "text": "Coq theorems C20_sort / C20_sort_shape (for any set of names, unbounded suffixes: result is the log names sorted by descending rotation number, live file last), C20_initial (start-up delivers the initial files' complete lines in that order and establishes the tail invariant), C20_tail / C20_tail_steps / C20_tail_prefix (for every sequence of append / partial append / rotate / recreate / truncate / chmod operations, at every prefix, the delivered lines are exactly the complete lines of each incarnation of the live file, once, in order, delivered by the operation that completes them), C20_lines_meaning (lines are newline-free and the split is unique). Tied to dirreader.go by differential execution of the real LogDirReader over an in-memory file system and fake watcher.",
        "design_ref": "DESIGN.md 6/C20",
        "note": "Trusted: Coq kernel; harness + in-package accessor (overlay); bufio/backoff/fsnotify behaviour; one op bit per event.",
        "technique": "Coq proof (invariant over operation sequences; sorting by permutation + StronglySorted) + model/implementation correspondence",
    },
    "C12": {
        "text": "Coq theorems C12_chunk_independent (any partition of the byte stream into writes gives the same outcome), C12_spec / C12_return / C12_stops_at_error / C12_all_delivered (the callback sees exactly the delimiter-terminated records, once, in order; delivery stops at the first refused record with that call's error; end of stream is returned as an error), C12_tail_never_delivered, C12_delivered_prefix, C12_delivered_shape, C12_stream_shape (unique decomposition). Tied to namedpipeingester.go through a REAL FIFO with generated write partitions, record sizes up to 3x64 KiB and a callback failing at every index.",
        "design_ref": "DESIGN.md 6/C12",
        "note": "Trusted: Coq kernel; harness; bufio.Reader.ReadString's contract (stated in the model, exercised, not proved); kernel FIFO semantics.",
        "technique": "Coq proof (induction over the chunk list with the buffer invariant) + correspondence through a real FIFO",
    },
    "C05": {
        "text": "Coq theorems over every line, token, writer behaviour and hand-off outcome: C05_forward_after_write (at most one login forwarded, only after exactly one succeeded event was written, the forwarded identity being that very event; write failure returns the error and forwards nothing; cancelled hand-off forwards nothing), C05_only_accepted_forward (only 'Accepted publickey'/'Accepted password' lines forward), C05_forward_content (pid = Atoi of the token, credential = 'unknown' or the certificate key id of the written event). Differential execution with an unbuffered logins channel records the order Encode-then-receive, pointer identity of the forwarded Source, write failure and cancellation modes. Handlers: for ALL 20 handlers the hand-written model IS the interpretation of a decision tree (regex, guards, per-branch field sources, metric calls, hand-off credential) that go2v regenerates from the handler's Go body by symbolic evaluation on every run (C05_all_handlers_from_source; flat-sketch form C05_handlers_from_source for 18 of them).",
        "design_ref": "DESIGN.md 6/C05",
        "note": "Trusted: as C17. The positive direction for public-key/certificate lines rests on the correspondence + oracle (loginRE field theorem is partial, see C06). select with both arms ready is not generated.",
        "technique": "Coq proof (all inputs; generated dispatch) + correspondence with fault modes",
    },
    "C07": {
        "text": "Coq theorems C07_sshd_framing (for every pid token without space, padding and message not starting with a space, the framed record through the syslog ingester yields exactly the processor's result for (pid, message)), C07_internal_spacing, C07_no_space_line, over the model of ParseSyslogMessage/Process (strings.Split/Join/TrimLeft/TrimSuffix). Correspondence: every C06 form is run once directly and once framed through the real SyslogIngester.Process (callback level) and must be equal; ParseSyslogMessage is compared with the model on generated strings (C12 harness). The auditd half is checked at parser level (auparse with/without newline). A further stage in both tiers feeds the built daemon through real FIFOs and requires the multiset of UserLogin events to equal the lines written (harness/daemon).",
        "design_ref": "DESIGN.md 6/C07",
        "note": "Partial: the auditd half is a contract of third-party auparse.Parse (TrimSpace) and is observed, not proved. FIFO-level delivery is C12's harness.",
        "technique": "Coq proof (list lemmas on split/join/trim) + direct-vs-framed differential execution",
    },
    "C03": {
        "text": "Coq theorems over ALL thread systems and ALL schedules at lock-acquisition granularity: C03_linearizable (a complete execution under the correlator-wide mutex equals the sequential execution of the same calls in the order they began, which respects each thread's program order), C03_prefix_sequential (at every intermediate point too), C03_deadlock_free, C03_blocks_compose (the blocks of a call compose to the sequential step used by C01-C09), C03_calls_are_critical_sections (GENERATED from sessiontracker.go: every exported method holds one and the same mutex for its whole body), and C03_unlocked_not_linearizable (a vm_compute witness that the same decomposition without the mutex loses both halves). The implementation is explored with forced single-preemption schedules at the lock hooks under the race detector; outcomes must be sequential outcomes. C03_syncmap_methods_atomic / C03_syncmap_unsafe_calls_hold_lock (GENERATED from genericsyncmap.go and every call site: each map method is one critical section, every ...Unsafe call happens under that map's lock) justify the block granularity. The explorer runs in a child process with GORACE=halt_on_error: a crash or data race is reported with the schedule in flight as replay; event writes are schedule points too.",
        "design_ref": "DESIGN.md 6/C03",
        "note": "Trusted: Coq kernel; go2v's reading of the Lock/defer Unlock idiom; hook placement in GenericSyncMap; Go race detector for data races (observed, not proved); bounded-preemption exploration is the search, the theorem covers all schedules of the model.",
        "technique": "Coq proof (invariant over schedules; refinement blocks->step) on a generated lock table + forced-schedule exploration of the real code under -race",
    },
    "C06": {
        "text": "One Coq theorem per supported message form (22 in Props/C06.v): for all field values in the stated domain, processing the message rendered from sshd's format string yields exactly the expected result record (one event with exactly those fields, outcome, counter label, forwarded login for accepted authentications). Proved over the GENERATED regexes and dispatch table (greedy-field lemma with three ways to exclude later split points, tail-clash argument for the seven 'User ...' forms). The accepted public-key and certificate forms are proved over a restricted domain and named _partial. Differential execution over the full generated domain (unicode names, IPv6 with zone ids, key ids with spaces/parentheses/'serial', serials to 2^64-1, paths with spaces) compares model and implementation, and the oracle compares the implementation with the event expected by construction. Handlers: for ALL 20 handlers the hand-written model IS the interpretation of a decision tree (regex, guards, per-branch field sources, metric calls, hand-off credential) that go2v regenerates from the handler's Go body by symbolic evaluation on every run (C06_all_handlers_from_source; flat-sketch form C06_handlers_from_source for 18 of them).",
        "design_ref": "DESIGN.md 6/C06",
        "note": "Domains are explicit hypotheses (see the table at the top of Props/C06.v); where an earlier greedy field needs a later field to be space-free (shell; path in revoked-key forms) the wider domain is covered by correspondence + oracle only. A certificate key id that itself contains a complete ' from A port N sshX: ALG:SUM' fragment hijacks the greedy fields (Example C06_example_keyid_hijack): outside the property's stated key-id domain, recorded as an observation.",
        "technique": "Coq proof per message form over generated regex ASTs + model/implementation correspondence + by-construction oracle",
    },
    "C10": {
        "text": "Coq theorems C10_causal (for every interleaving of the two pipelines' atomic actions in which a login is handed over only after its UserLogin was written, every UserAction entry of the output is preceded by the UserLogin of the login whose identity it carries) and C10_once (the UserAction entries of the output are exactly the correlator's emissions, each once, in order), built on the tracker invariant. The implementation is exercised at processor level: real sshd processor and real Auditd.Read concurrently on one event writer and an unbuffered channel under the race detector, every Write call recorded and required to be exactly one complete JSON line, no duplicates, causal order. A further stage in both tiers runs the built daemon on two FIFOs with concurrent bursts and checks whole-JSON lines, no duplicates and login-before-action on the real events file (harness/daemon).",
        "design_ref": "DESIGN.md 6/C10",
        "note": "Partial: torn or interleaved lines cannot be exhibited by the model (one append per event); kernel O_APPEND atomicity and json.Encoder issuing one Write per Encode are observed, not proved.",
        "technique": "Coq proof (induction over runs using the tracker invariant) + concurrent differential execution with a recording writer under -race",
    },
    "C14": {
        "text": "Coq theorems C14_render (for every login identity and coalesced audit event: type UserAction, component auditd, timestamp, auditId = session, outcome succeeded iff result is exactly 'success', action/how/object, process_args present iff the event has arguments and then equal, identity = the login's), C14_same_identity (under the C02 discipline all rendered events of a session carry one login's identity; built on once_in_order) and C14_non_mutation (no audit step changes a stored login). Correspondence: generated record groups go through the real auparse -> Reassembler -> reassemblerCB -> correlator, the written UserAction is compared with the model applied to the library's coalesced event; the Go oracle checks the property text directly, including deep-copy non-mutation of the stored login over >= 20 events.",
        "design_ref": "DESIGN.md 6/C14",
        "note": "Partial: how aucoalesce derives result/summary from raw records is third-party behaviour used as oracle (e.g. ENRICHED-format LOGIN records are read as result 'fail' by the pinned library: recorded as an observation, replay findings/C14_enriched_login_replay.json).",
        "technique": "Coq proof (pure rendering function + tracker refinement) + correspondence through the real parser/reassembler",
    },
    "C13": {
        "text": "Coq theorems C13_rows_guarded (computed on the table GENERATED from the workers' ASTs: every blocking operation has a ctx.Done arm or the close-on-cancel idiom, every delivering helper goroutine is joined by its parent) and C13_cancel_responsive (for every worker of that table, every reachable state and every K: after Cancel every fair run has returned within 2K+4 rounds and no Deliver event follows the return of the worker including its helpers), plus C13_unguarded_hangs / C13_unjoined_delivers showing both hypotheses are necessary. Fault injection on the real workers in each blocking state (waiting for a writer to open the FIFO, idle read, login hand-off to an unready correlator, back-pressure with capacities 0/1/16, Read idle and busy): return within 2 s, nothing delivered after return.",
        "design_ref": "DESIGN.md 6/C08-C13",
        "note": "Partial: wall-clock bound and close(2) unblocking read(2) are runtime facts, measured. Trusted: go2v's recognition of the guard and join idioms (fails closed on unknown blocking calls).",
        "technique": "Coq proof (LTS with potential function, instantiated with a generated blocking table) + fault injection on the real workers",
    },
    "C08": {
        "text": "Coq theorems C08_wiring (generated: the three workers run under one errgroup whose context derives from the signal context, Wait's error is returned, the FIFO checks exist, main exits via log.Fatalln), C08_rows_guarded and C08_fail_stop (from every reachable daemon state, including a full audit buffer: a worker failure cancels the group; once cancelled every fair run exits within 2K+4 rounds, with status 1 on failure). The built binary is driven with real FIFOs: every failure cause and both signals, idle and under a flood that fills the 10000-slot buffer, plus four mis-configured paths; exit within 5 s, non-zero on failure. Also: the events sink breaking after the login was recorded (FIFO reader gone), so that only the audit side's writes fail: single event, a batch of four released by one terminator, a stream of 40. The reassembler callbacks are part of the generated blocking table.",
        "design_ref": "DESIGN.md 6/C08-C13",
        "note": "Partial: signal delivery, exit status of log.Fatalln, kernel FIFO behaviour and 'buffer full' under load are observed on the binary, not proved; bound proved in rounds, not seconds.",
        "technique": "Coq proof (errgroup LTS over the generated table) + fault injection on the built daemon",
    },
    "C15": {
        "text": "Coq theorems with the third-party parser/coalescer/correlator as explicit oracle arguments: C15_parse_first (the first unparsable non-empty line stops the processor and is the one reported; everything before it was pushed), C15_conservation (unconditionally: after shutdown every pushed non-EOE message is in exactly one group handed to the callback, as a permutation), C15_grouping / C15_read_grouping / C15_size_ok_few_seqs (records with equal sequence number form exactly one group under no-expiry, bounded in-flight and terminator-last), C15_errors and C15_slot (the first callback error is what Read returns; a later one is dropped only when one is pending), C15_limits (generated constants). Correspondence at two levels: real parseAuditLogs+Reassembler+reassemblerCB with a fake auditor, and the real Auditd.Read end to end against read composed with the correlator model.",
        "design_ref": "DESIGN.md 6/C15",
        "note": "Partial: go-libaudit's reassembler is hand-modelled (tied by correspondence), parsing/coalescing are oracles; sequence roll-over and real-time expiry are left out.",
        "technique": "Coq proof (oracle-parametric model; permutation/invariant arguments) + two-level correspondence through the real reassembler",
    },
}
